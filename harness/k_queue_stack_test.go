package main

import (
	"github.com/esimov/gogu/queue"
	"github.com/esimov/gogu/stack"
)

// ---- C05: queues -------------------------------------------------------------------------------

type queueRunner struct {
	q *queue.Queue[int]
	d decoySet
}

func (r *queueRunner) Decoys() *decoySet { return &r.d }

func (r *queueRunner) Do(op []string) string {
	switch op[0] {
	case "enqueue":
		r.q.Enqueue(atoi(op[1]))
		return "ok"
	case "dequeue":
		v, err := r.q.Dequeue()
		return itoa(v) + " " + b2s(err != nil)
	case "peek":
		return itoa(r.q.Peek())
	case "search":
		return b2s(r.q.Search(atoi(op[1])))
	case "size":
		return itoa(r.q.Size())
	case "clear":
		r.q.Clear()
		return "ok"
	}
	panic("harness: bad op " + op[0])
}

type lqueueRunner struct {
	q *queue.LQueue[int]
	d decoySet
}

func (r *lqueueRunner) Decoys() *decoySet { return &r.d }

func (r *lqueueRunner) Do(op []string) string {
	switch op[0] {
	case "enqueue":
		r.q.Enqueue(atoi(op[1]))
		return "ok"
	case "dequeue":
		return itoa(r.q.Dequeue())
	case "peek":
		return itoa(r.q.Peek())
	case "search":
		return b2s(r.q.Search(atoi(op[1])))
	case "size":
		return itoa(r.q.Size())
	case "clear":
		r.q.Clear()
		return "ok"
	}
	panic("harness: bad op " + op[0])
}

// ---- C06: stacks -------------------------------------------------------------------------------

type stackRunner struct {
	s *stack.Stack[int]
	d decoySet
}

func (r *stackRunner) Decoys() *decoySet { return &r.d }

func (r *stackRunner) Do(op []string) string {
	switch op[0] {
	case "push":
		r.s.Push(atoi(op[1]))
		return "ok"
	case "pop":
		return itoa(r.s.Pop())
	case "peek":
		return itoa(r.s.Peek())
	case "search":
		return b2s(r.s.Search(atoi(op[1])))
	case "size":
		return itoa(r.s.Size())
	}
	panic("harness: bad op " + op[0])
}

type lstackRunner struct {
	s *stack.LStack[int]
	d decoySet
}

func (r *lstackRunner) Decoys() *decoySet { return &r.d }

func (r *lstackRunner) Do(op []string) string {
	switch op[0] {
	case "push":
		r.s.Push(atoi(op[1]))
		return "ok"
	case "pop":
		return itoa(r.s.Pop())
	case "peek":
		return itoa(r.s.Peek())
	case "search":
		return b2s(r.s.Search(atoi(op[1])))
	case "size":
		return itoa(r.s.Size())
	}
	panic("harness: bad op " + op[0])
}

func init() {
	kinds["queue"] = func(p []string) Runner {
		return &queueRunner{q: queue.New[int](), d: decoySet{mk: func() decoy {
			q := queue.New[int]()
			return decoy{put: func(v int) { q.Enqueue(v) }, take: func() { q.Dequeue() }}
		}}}
	}
	kinds["lqueue"] = func(p []string) Runner {
		return &lqueueRunner{q: queue.NewLinked(atoi(p[0])), d: decoySet{mk: func() decoy {
			q := queue.NewLinked(-901)
			return decoy{put: func(v int) { q.Enqueue(v) }, take: func() { q.Dequeue() }}
		}}}
	}
	kinds["stack"] = func(p []string) Runner {
		return &stackRunner{s: stack.New[int](), d: decoySet{mk: func() decoy {
			s := stack.New[int]()
			return decoy{put: func(v int) { s.Push(v) }, take: func() { s.Pop() }}
		}}}
	}
	kinds["lstack"] = func(p []string) Runner {
		return &lstackRunner{s: stack.NewLinked(atoi(p[0])), d: decoySet{mk: func() decoy {
			s := stack.NewLinked(-901)
			return decoy{put: func(v int) { s.Push(v) }, take: func() { s.Pop() }}
		}}}
	}

	gens["C05"] = genC05
	gens["C06"] = genC06
}

// Values 1..3 are the alphabet; 0 (the zero value) is probed by Search so that a placeholder
// zero element showing up in the container is observable.
var qObs = []string{"size", "peek", "search 0", "search 1", "search 2", "search 3"}

func genC05(g *Gen) {
	muts := []string{"enqueue 1", "enqueue 2", "enqueue 3", "dequeue", "clear"}
	maxLen := 6
	if g.Thorough() {
		maxLen = 8
	}
	for _, kind := range []string{"queue", "lqueue"} {
		var params []string
		if kind == "lqueue" {
			params = []string{"1"}
		}
		seqsUpTo(muts, maxLen, func(s []string) {
			if !g.Mine() {
				return
			}
			g.Emit(kind, params, interleave(s, qObs))
		})
	}
	// bulk runs across the capacity thresholds of a growing slice
	for _, kind := range []string{"queue", "lqueue"} {
		for _, pl := range bulkPlans(g.Thorough()) {
			if !g.Mine() {
				continue
			}
			var params []string
			if kind == "lqueue" {
				params = []string{"0"}
			}
			n := pl[0]
			// distinct values in the big runs (a wiped or duplicated element must be visible), a small alphabet with
			// the zero value in the standard ones
			val := func(i int) string { return "enqueue " + itoa(i%7-1) }
			obs := []string{"size", "peek", "search 0", "search 5"}
			if n > 3000 {
				val = func(i int) string { return "enqueue " + itoa(i+1) }
				obs = []string{"size", "peek", "search 0", "search " + itoa(n), "search " + itoa(n-n/8), "search " + itoa(n/2)}
			}
			g.Emit(kind, params, bulkPlan(val, "dequeue", obs, pl[0], pl[1], pl[2]))
		}
	}
	// seeded long runs that repeatedly drain and refill, wider alphabet
	n := 300
	if g.Thorough() {
		n = 6000
	}
	r := g.Rng("C05")
	for i := 0; i < n; i++ {
		kind := "queue"
		var params []string
		if i%2 == 1 {
			kind = "lqueue"
			params = []string{itoa(r.Range(-2, 9))}
		}
		var ops []string
		length := r.Range(10, 200)
		phase := 0 // 0 refill, 1 drain
		for j := 0; j < length; j++ {
			if r.Intn(17) == 0 {
				phase = 1 - phase
			}
			p := r.Intn(100)
			enq := 65
			if phase == 1 {
				enq = 20
			}
			switch {
			case p < enq:
				ops = append(ops, "enqueue "+itoa(r.Range(-2, 9)))
			case p < 92:
				ops = append(ops, "dequeue")
			case p < 95:
				ops = append(ops, "clear")
			default:
				ops = append(ops, "search "+itoa(r.Range(-2, 9)))
			}
			if r.Intn(3) == 0 {
				ops = append(ops, "size", "peek")
			}
		}
		// final drain
		for j := 0; j < 12; j++ {
			ops = append(ops, "dequeue", "size")
		}
		if i%3 == 0 { // other live queues are operated in between (after a dequeue or clear preferably)
			ops = withDecoys(ops, r, func(op string) bool { return op == "dequeue" || op == "clear" })
		}
		g.Emit(kind, params, ops)
	}
}

var sObs = []string{"size", "peek", "search 0", "search 1", "search 2", "search 3"}

func genC06(g *Gen) {
	muts := []string{"push 1", "push 2", "push 3", "pop"}
	maxLen := 7
	if g.Thorough() {
		maxLen = 9
	}
	for _, kind := range []string{"stack", "lstack"} {
		var params []string
		if kind == "lstack" {
			params = []string{"1"}
		}
		seqsUpTo(muts, maxLen, func(s []string) {
			if !g.Mine() {
				return
			}
			g.Emit(kind, params, interleave(s, sObs))
		})
	}
	for _, kind := range []string{"stack", "lstack"} {
		for _, pl := range bulkPlans(g.Thorough()) {
			if !g.Mine() {
				continue
			}
			var params []string
			if kind == "lstack" {
				params = []string{"0"}
			}
			n := pl[0]
			val := func(i int) string { return "push " + itoa(i%7-1) }
			obs := []string{"size", "peek", "search 0", "search 5"}
			if n > 3000 {
				val = func(i int) string { return "push " + itoa(i+1) }
				obs = []string{"size", "peek", "search 0", "search " + itoa(n), "search " + itoa(n/2)}
			}
			g.Emit(kind, params, bulkPlan(val, "pop", obs, pl[0], pl[1], pl[2]))
		}
	}
	n := 300
	if g.Thorough() {
		n = 6000
	}
	r := g.Rng("C06")
	for i := 0; i < n; i++ {
		kind := "stack"
		var params []string
		if i%2 == 1 {
			kind = "lstack"
			params = []string{itoa(r.Range(-2, 9))}
		}
		var ops []string
		length := r.Range(10, 200)
		phase := 0
		for j := 0; j < length; j++ {
			if r.Intn(17) == 0 {
				phase = 1 - phase
			}
			p := r.Intn(100)
			push := 65
			if phase == 1 {
				push = 20
			}
			switch {
			case p < push:
				ops = append(ops, "push "+itoa(r.Range(-2, 9)))
			case p < 95:
				ops = append(ops, "pop")
			default:
				ops = append(ops, "search "+itoa(r.Range(-2, 9)))
			}
			if r.Intn(3) == 0 {
				ops = append(ops, "size", "peek")
			}
		}
		for j := 0; j < 12; j++ {
			ops = append(ops, "pop", "size")
		}
		if i%3 == 0 { // other live stacks are operated in between (after a pop preferably)
			ops = withDecoys(ops, r, func(op string) bool { return op == "pop" })
		}
		g.Emit(kind, params, ops)
	}
}
