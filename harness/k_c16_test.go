package main

// C16: helpers do not disturb their arguments or each other's results.
//
// One case = one pool of arguments (CASE c16 <s1> <s2> <n> <p> <f> <m1> <m2> <keys> <str>).  For every
// helper the pool is rebuilt from the parameters with every slice placed in a backing array that has
// spare capacity filled with sentinels; the pool is snapshotted (whole backing arrays, maps sorted),
// the helper is called, and the pool is snapshotted again:
//
//	call <Helper> => <snapshot before> <snapshot after> <ok|panic>
//
// and for every ordered pair (h1 returning a slice/map, h2 any helper) on ONE shared pool
//
//	pair <h1> <h2> => <result of h1 right after h1> <the same result re-read after h2> <h1 result aliases an argument T|F>
//
// Snapshots are atoms without spaces; the Lean monitor compares them and applies the in-place allow
// list of the property; the Lean model predicts "unchanged" from the effect table the translator
// regenerates from the source.

import (
	"fmt"
	"sort"
	"strings"
	"unsafe"

	"github.com/esimov/gogu"
	"github.com/esimov/gogu/heap"
)

const sentinel = -777
const spare = 3

// sent places vals in a fresh backing array with `spare` sentinel cells behind them.
func sent(vals []int) (s []int, backing []int) {
	backing = make([]int, len(vals)+spare)
	copy(backing, vals)
	for i := len(vals); i < len(backing); i++ {
		backing[i] = sentinel
	}
	return backing[:len(vals):len(backing)], backing
}

type pool16 struct {
	s1, s2     []int
	b1, b2     []int // backing arrays of s1, s2
	rows       [][]int
	rowsB      [][]int // backing of the outer slice of rows (spare cells hold nil)
	n, p, f    int
	m1, m2     map[int]int
	ms         []map[int]int
	msB        []map[int]int
	mm         []map[int]map[int]int
	keys       []int
	keysB      []int
	str        string
	nested     any
	nestedLeaf []int // backing of the nested leaves
	nestedIn   []any // backing (with spare capacity) of the inner []any level of `nested`
	nestedTop  []any // backing (with spare capacity) of the top []any level
}

func parsePairs(s string) map[int]int {
	m := map[int]int{}
	for _, e := range parseList(s) {
		kv := parseInts(e)
		m[kv[0]] = kv[1]
	}
	return m
}

func newPool16(p []string) *pool16 {
	q := &pool16{}
	q.s1, q.b1 = sent(parseInts(p[0]))
	q.s2, q.b2 = sent(parseInts(p[1]))
	q.n, q.p, q.f = atoi(p[2]), atoi(p[3]), atoi(p[4])
	q.m1, q.m2 = parsePairs(p[5]), parsePairs(p[6])
	q.keys, q.keysB = sent(parseInts(p[7]))
	q.str = unhx(p[8])
	// rows: the two slices (sentinel-backed copies of their own) in an outer slice with spare capacity
	r1, _ := sent(parseInts(p[0]))
	r2, _ := sent(parseInts(p[1]))
	r3, _ := sent(parseInts(p[7]))
	q.rowsB = make([][]int, 3+spare)
	q.rowsB[0], q.rowsB[1], q.rowsB[2] = r1, r2, r3
	q.rows = q.rowsB[:3:len(q.rowsB)]
	q.msB = make([]map[int]int, 2+spare)
	q.msB[0], q.msB[1] = parsePairs(p[5]), parsePairs(p[6])
	q.ms = q.msB[:2:len(q.msB)]
	q.mm = []map[int]map[int]int{{1: parsePairs(p[5])}, {2: parsePairs(p[6])}}
	leaf, lb := sent(parseInts(p[0]))
	q.nestedLeaf = lb
	// every []any level sits in a backing array with spare capacity (sentinel strings behind it)
	q.nestedIn = make([]any, 2, 2+spare)
	q.nestedIn[0], q.nestedIn[1] = []int{7, 8}, 9
	q.nestedTop = make([]any, 3, 3+spare)
	q.nestedTop[0], q.nestedTop[1], q.nestedTop[2] = leaf, q.nestedIn, 5
	for _, b := range [][]any{q.nestedIn, q.nestedTop} {
		full := b[:cap(b)]
		for i := len(b); i < len(full); i++ {
			full[i] = "sentinel"
		}
	}
	q.nested = q.nestedTop
	return q
}

func mapStr(m map[int]int) string {
	ks := make([]int, 0, len(m))
	for k := range m {
		ks = append(ks, k)
	}
	sort.Ints(ks)
	var sb strings.Builder
	sb.WriteByte('{')
	for i, k := range ks {
		if i > 0 {
			sb.WriteByte(',')
		}
		fmt.Fprintf(&sb, "%d:%d", k, m[k])
	}
	sb.WriteByte('}')
	return sb.String()
}

func sliceStr(a []int) string { return strings.ReplaceAll(fmt.Sprint(a), " ", ",") }

// snapshot renders every argument of the pool as one token per field (`name=value`, no spaces); the
// capacity regions (sentinels) are fields of their own.
func (q *pool16) snapshot() string {
	var sb strings.Builder
	n1, n2, nk := len(q.s1), len(q.s2), len(q.keys)
	fmt.Fprintf(&sb, "s1=%s s1cap=%s s2=%s s2cap=%s keys=%s keyscap=%s ", sliceStr(q.b1[:n1]), sliceStr(q.b1[n1:]),
		sliceStr(q.b2[:n2]), sliceStr(q.b2[n2:]), sliceStr(q.keysB[:nk]), sliceStr(q.keysB[nk:]))
	sb.WriteString("rows=")
	for i, r := range q.rowsB {
		if i > 0 {
			sb.WriteByte('|')
		}
		if r == nil {
			sb.WriteString("nil")
		} else {
			fmt.Fprintf(&sb, "%d%s", len(r), sliceStr(r[:cap(r)]))
		}
	}
	fmt.Fprintf(&sb, " m1=%s m2=%s ms=", mapStr(q.m1), mapStr(q.m2))
	for i, m := range q.msB {
		if i > 0 {
			sb.WriteByte('|')
		}
		if m == nil {
			sb.WriteString("nil")
		} else {
			sb.WriteString(mapStr(m))
		}
	}
	sb.WriteString(" mm=")
	for i, m := range q.mm {
		if i > 0 {
			sb.WriteByte('|')
		}
		for k, v := range m {
			fmt.Fprintf(&sb, "%d:%s", k, mapStr(v))
		}
	}
	anyStr := func(b []any) string {
		var parts []string
		for _, x := range b[:cap(b)] {
			switch v := x.(type) {
			case []int:
				parts = append(parts, sliceStr(v))
			case []any:
				parts = append(parts, fmt.Sprintf("any%d", len(v)))
			default:
				parts = append(parts, strings.ReplaceAll(fmt.Sprint(v), " ", "_"))
			}
		}
		return fmt.Sprintf("%d[%s]", len(b), strings.Join(parts, "|"))
	}
	fmt.Fprintf(&sb, " leaf=%s nestedin=%s nestedtop=%s str=%s", sliceStr(q.nestedLeaf), anyStr(q.nestedIn), anyStr(q.nestedTop), hx(q.str))
	return sb.String()
}

// resStr renders a helper result (slices with their capacity ignored, maps sorted).
func resStr(v any) string {
	switch x := v.(type) {
	case nil:
		return "nil"
	case []int:
		return sliceStr(x)
	case [][]int:
		parts := make([]string, len(x))
		for i, r := range x {
			parts[i] = sliceStr(r)
		}
		return "[" + strings.Join(parts, "|") + "]"
	case [2][]int:
		return sliceStr(x[0]) + "&" + sliceStr(x[1])
	case map[int]int:
		return mapStr(x)
	case map[int][]int:
		ks := make([]int, 0, len(x))
		for k := range x {
			ks = append(ks, k)
		}
		sort.Ints(ks)
		parts := make([]string, len(ks))
		for i, k := range ks {
			parts[i] = fmt.Sprintf("%d:%s", k, sliceStr(x[k]))
		}
		return "{" + strings.Join(parts, ",") + "}"
	case []map[int]int:
		parts := make([]string, len(x))
		for i, m := range x {
			parts[i] = mapStr(m)
		}
		return "[" + strings.Join(parts, "|") + "]"
	case [2][]map[int]int:
		return resStr(x[0]) + "&" + resStr(x[1])
	case []map[int]map[int]int:
		parts := make([]string, len(x))
		for i, m := range x {
			for k, v := range m {
				parts[i] += fmt.Sprintf("%d:%s", k, mapStr(v))
			}
		}
		return "[" + strings.Join(parts, "|") + "]"
	case []string:
		parts := make([]string, len(x))
		for i, s := range x {
			parts[i] = hx(s)
		}
		return "[" + strings.Join(parts, "|") + "]"
	case string:
		return hx(x)
	}
	return strings.ReplaceAll(fmt.Sprint(v), " ", ",")
}

// aliases reports whether result v shares storage with an argument of the pool (views such as Drop /
// Chunk, or an in-place helper returning its argument).
func (q *pool16) aliases(v any) bool {
	in := func(s []int, backing []int) bool {
		if cap(s) == 0 || len(backing) == 0 {
			return false
		}
		p := uintptr(unsafe.Pointer(unsafe.SliceData(s)))
		lo := uintptr(unsafe.Pointer(unsafe.SliceData(backing)))
		hi := lo + uintptr(len(backing))*unsafe.Sizeof(int(0))
		return p >= lo && p < hi
	}
	check := func(s []int) bool {
		if in(s, q.b1) || in(s, q.b2) || in(s, q.keysB) || in(s, q.nestedLeaf) {
			return true
		}
		for _, r := range q.rowsB {
			if r != nil && in(s, r[:cap(r)]) {
				return true
			}
		}
		return false
	}
	sameMap := func(m map[int]int) bool {
		if m == nil {
			return false
		}
		id := fmt.Sprintf("%p", m)
		for _, a := range append([]map[int]int{q.m1, q.m2}, q.msB...) {
			if a != nil && fmt.Sprintf("%p", a) == id {
				return true
			}
		}
		return false
	}
	switch x := v.(type) {
	case []int:
		return check(x)
	case [][]int:
		for _, r := range x {
			if check(r) {
				return true
			}
		}
	case [2][]int:
		return check(x[0]) || check(x[1])
	case map[int]int:
		return sameMap(x)
	case []map[int]int:
		for _, m := range x {
			if sameMap(m) {
				return true
			}
		}
	case [2][]map[int]int:
		return q.aliases(x[0]) || q.aliases(x[1])
	}
	return false
}

func pred16(i int) func(int) bool { return ft1(pred160(i)) }

func pred160(i int) func(int) bool {
	switch i % 6 {
	case 0:
		return func(x int) bool { return x%2 == 0 }
	case 1:
		return func(x int) bool { return x > 1 }
	case 2:
		return func(int) bool { return true }
	case 3:
		return func(int) bool { return false }
	case 4:
		return func(x int) bool { return x == 2 }
	}
	return func(x int) bool { return x < 0 }
}

func key16(i int) func(int) int { return ft1(key160(i)) }

func key160(i int) func(int) int {
	switch i % 6 {
	case 0:
		return func(x int) int { return x }
	case 1:
		return func(x int) int { return x % 2 }
	case 2:
		return func(x int) int { return x / 2 }
	case 3:
		return func(int) int { return 0 }
	case 4:
		return func(x int) int { return -x }
	}
	return func(x int) int { return x * x }
}

type helper16 struct {
	name string
	run  func(q *pool16) any
}

// helpers16 lists every exported slice/map/string helper with the pool arguments it is applied to.
var helpers16 = []helper16{
	{"Sum", func(q *pool16) any { return gogu.Sum(q.s1) }},
	{"SumBy", func(q *pool16) any { return gogu.SumBy(q.s1, key16(q.f)) }},
	{"Mean", func(q *pool16) any { return gogu.Mean(q.s1) }},
	{"IndexOf", func(q *pool16) any { return gogu.IndexOf(q.s1, q.n) }},
	{"LastIndexOf", func(q *pool16) any { return gogu.LastIndexOf(q.s1, q.n) }},
	{"Map", func(q *pool16) any { return gogu.Map(q.s1, key16(q.f)) }},
	{"ForEach", func(q *pool16) any { gogu.ForEach(q.s1, func(int) {}); return nil }},
	{"ForEachRight", func(q *pool16) any { gogu.ForEachRight(q.s1, func(int) {}); return nil }},
	{"Reduce", func(q *pool16) any { return gogu.Reduce(q.s1, func(a, b int) int { return a + b }, 0) }},
	{"Reverse", func(q *pool16) any { return gogu.Reverse(q.s1) }},
	{"Unique", func(q *pool16) any { return gogu.Unique(q.s1) }},
	{"UniqueBy", func(q *pool16) any { return gogu.UniqueBy(q.s1, key16(q.f)) }},
	{"Every", func(q *pool16) any { return gogu.Every(q.s1, pred16(q.p)) }},
	{"Some", func(q *pool16) any { return gogu.Some(q.s1, pred16(q.p)) }},
	{"Partition", func(q *pool16) any { return gogu.Partition(q.s1, pred16(q.p)) }},
	{"Contains", func(q *pool16) any { return gogu.Contains(q.s1, q.n) }},
	{"Duplicate", func(q *pool16) any { return gogu.Duplicate(q.s1) }},
	{"DuplicateWithIndex", func(q *pool16) any { return gogu.DuplicateWithIndex(q.s1) }},
	{"Merge", func(q *pool16) any { return gogu.Merge(q.s1, q.s2, q.keys) }},
	{"Merge2", func(q *pool16) any { return gogu.Merge(q.s2, q.s1) }},
	{"Merge3", func(q *pool16) any { return gogu.Merge(q.s1, q.keys, q.s2) }},
	{"Flatten", func(q *pool16) any { r, _ := gogu.Flatten[int](q.nested); return r }},
	{"Union", func(q *pool16) any { r, _ := gogu.Union[int](q.nested); return r }},
	// the nesting given as a flat []T, as one []T leaf wrapped once, and with empty leaves around it (the first
	// non-empty leaf is then the caller's own slice: a result that adopts it shares the caller's storage)
	{"Flatten2", func(q *pool16) any { r, _ := gogu.Flatten[int](q.s1); return r }},
	{"Union2", func(q *pool16) any { r, _ := gogu.Union[int](q.s1); return r }},
	{"Flatten3", func(q *pool16) any { r, _ := gogu.Flatten[int]([]any{q.s1}); return r }},
	{"Union3", func(q *pool16) any { r, _ := gogu.Union[int]([]any{q.s1}); return r }},
	{"Flatten4", func(q *pool16) any { r, _ := gogu.Flatten[int]([]any{[]int{}, q.s1, []any{}, []int{}}); return r }},
	{"Union4", func(q *pool16) any { r, _ := gogu.Union[int]([]any{[]int{}, q.s1, []any{}, []int{}}); return r }},
	{"Flatten5", func(q *pool16) any { r, _ := gogu.Flatten[int]([]any{q.s1, q.s2}); return r }},
	{"Union5", func(q *pool16) any { r, _ := gogu.Union[int]([]any{q.s1, q.s2}); return r }},
	{"Intersection", func(q *pool16) any { return gogu.Intersection(q.s1, q.s2, q.keys) }},
	{"IntersectionBy", func(q *pool16) any { return gogu.IntersectionBy(key16(q.f), q.s1, q.s2) }},
	{"Without", func(q *pool16) any { return gogu.Without[int, int](q.s1, q.keys...) }},
	{"Difference", func(q *pool16) any { return gogu.Difference(q.s1, q.s2) }},
	{"DifferenceBy", func(q *pool16) any { return gogu.DifferenceBy(q.s1, q.s2, key16(q.f)) }},
	{"Chunk", func(q *pool16) any { return gogu.Chunk(q.s1, q.n) }},
	{"Drop", func(q *pool16) any { return gogu.Drop(q.s1, q.n) }},
	{"DropWhile", func(q *pool16) any { return gogu.DropWhile(q.s1, pred16(q.p)) }},
	{"DropRightWhile", func(q *pool16) any { return gogu.DropRightWhile(q.s1, pred16(q.p)) }},
	{"GroupBy", func(q *pool16) any { return gogu.GroupBy(q.s1, key16(q.f)) }},
	{"Zip", func(q *pool16) any { return gogu.Zip(q.rows[:2]...) }},
	{"Unzip", func(q *pool16) any { return gogu.Unzip(q.rows[:2]...) }},
	// the helpers with variadic slices called with a SPREAD caller-owned outer slice (rows...)
	{"Intersection2", func(q *pool16) any { return gogu.Intersection(q.rows...) }},
	{"IntersectionBy2", func(q *pool16) any { return gogu.IntersectionBy(key16(q.f), q.rows...) }},
	{"Merge4", func(q *pool16) any { return gogu.Merge(q.rows[0], q.rows[1:]...) }},
	{"Zip2", func(q *pool16) any { return gogu.Zip(q.rows...) }},
	{"Unzip2", func(q *pool16) any { return gogu.Unzip(q.rows...) }},
	{"Without2", func(q *pool16) any { return gogu.Without[int, int](q.s1, q.rows[1]...) }},
	{"Min2", func(q *pool16) any { return gogu.Min(q.rows[0]...) }},
	{"ToSlice", func(q *pool16) any { return gogu.ToSlice(q.s1...) }},
	{"Filter", func(q *pool16) any { return gogu.Filter(q.s1, pred16(q.p)) }},
	{"Reject", func(q *pool16) any { return gogu.Reject(q.s1, pred16(q.p)) }},
	{"FilterMap", func(q *pool16) any { return gogu.FilterMap(q.m1, pred16(q.p)) }},
	{"FilterMapCollection", func(q *pool16) any { return gogu.FilterMapCollection(q.ms, pred16(q.p)) }},
	{"Filter2DMapCollection", func(q *pool16) any {
		return gogu.Filter2DMapCollection(q.mm, func(m map[int]int) bool { return gogu.MapSome(m, pred16(q.p)) })
	}},
	{"FindIndex", func(q *pool16) any { return gogu.FindIndex(q.s1, pred16(q.p)) }},
	{"FindLastIndex", func(q *pool16) any { return gogu.FindLastIndex(q.s1, pred16(q.p)) }},
	{"FindAll", func(q *pool16) any { return gogu.FindAll(q.s1, pred16(q.p)) }},
	{"FindMin", func(q *pool16) any { return gogu.FindMin(q.s1) }},
	{"FindMinBy", func(q *pool16) any { return gogu.FindMinBy(q.s1, key16(q.f)) }},
	{"FindMinByKey", func(q *pool16) any { r, _ := gogu.FindMinByKey(q.ms, q.n); return r }},
	{"FindMax", func(q *pool16) any { return gogu.FindMax(q.s1) }},
	{"FindMaxBy", func(q *pool16) any { return gogu.FindMaxBy(q.s1, key16(q.f)) }},
	{"FindMaxByKey", func(q *pool16) any { r, _ := gogu.FindMaxByKey(q.ms, q.n); return r }},
	{"Nth", func(q *pool16) any { r, _ := gogu.Nth(q.s1, q.n); return r }},
	{"Keys", func(q *pool16) any { return gogu.Keys(q.m1) }},
	{"Values", func(q *pool16) any { return gogu.Values(q.m1) }},
	{"MapValues", func(q *pool16) any { return gogu.MapValues(q.m1, key16(q.f)) }},
	{"MapKeys", func(q *pool16) any { return gogu.MapKeys(q.m1, func(k, v int) int { return key16(q.f)(k) }) }},
	{"MapEvery", func(q *pool16) any { return gogu.MapEvery(q.m1, pred16(q.p)) }},
	{"MapSome", func(q *pool16) any { return gogu.MapSome(q.m1, pred16(q.p)) }},
	{"MapContains", func(q *pool16) any { return gogu.MapContains(q.m1, q.n) }},
	{"MapUnique", func(q *pool16) any { return gogu.MapUnique(q.m1) }},
	{"MapUnique1", func(q *pool16) any { return gogu.MapUnique(map[int]int{q.n: q.p}) }},
	{"MapCollection", func(q *pool16) any { return gogu.MapCollection(q.m1, key16(q.f)) }},
	{"Find", func(q *pool16) any { return gogu.Find(q.m1, pred16(q.p)) }},
	{"FindKey", func(q *pool16) any { gogu.FindKey(q.m1, pred16(q.p)); return nil }},
	{"FindByKey", func(q *pool16) any { return gogu.FindByKey(q.m1, pred16(q.p)) }},
	{"Invert", func(q *pool16) any { return gogu.Invert(q.m1) }},
	{"Pluck", func(q *pool16) any { return gogu.Pluck(q.ms, q.n) }},
	{"Pick", func(q *pool16) any { r, _ := gogu.Pick(q.m1, q.keys...); return r }},
	{"PickBy", func(q *pool16) any { return gogu.PickBy(q.m1, func(k, v int) bool { return pred16(q.p)(v) }) }},
	{"Omit", func(q *pool16) any { return gogu.Omit(q.m1, q.keys...) }},
	{"OmitBy", func(q *pool16) any { return gogu.OmitBy(q.m1, func(k, v int) bool { return pred16(q.p)(v) }) }},
	{"PartitionMap", func(q *pool16) any {
		return gogu.PartitionMap(q.ms, func(m map[int]int) bool { return gogu.MapSome(m, pred16(q.p)) })
	}},
	{"SliceToMap", func(q *pool16) any { return gogu.SliceToMap(q.s1, q.s2) }},
	{"Min", func(q *pool16) any { return gogu.Min(q.s1...) }},
	{"Max", func(q *pool16) any { return gogu.Max(q.s1...) }},
	{"Shuffle", func(q *pool16) any { return gogu.Shuffle(q.s1) }},
	{"Substr", func(q *pool16) any { return gogu.Substr(q.str, q.n, 2) }},
	{"ToLower", func(q *pool16) any { return gogu.ToLower(q.str) }},
	{"ToUpper", func(q *pool16) any { return gogu.ToUpper(q.str) }},
	{"Capitalize", func(q *pool16) any { return gogu.Capitalize(q.str) }},
	{"CamelCase", func(q *pool16) any { return gogu.CamelCase(q.str) }},
	{"SnakeCase", func(q *pool16) any { return gogu.SnakeCase(q.str) }},
	{"KebabCase", func(q *pool16) any { return gogu.KebabCase(q.str) }},
	{"PadLeft", func(q *pool16) any { return gogu.PadLeft(q.str, q.n+3, "ab") }},
	{"PadRight", func(q *pool16) any { return gogu.PadRight(q.str, q.n+3, "ab") }},
	{"Pad", func(q *pool16) any { return gogu.Pad(q.str, q.n+3, "ab") }},
	{"SplitAtIndex", func(q *pool16) any { return gogu.SplitAtIndex(q.str, q.n) }},
	{"Wrap", func(q *pool16) any { return gogu.Wrap(q.str, "'") }},
	{"Unwrap", func(q *pool16) any { return gogu.Unwrap(q.str, "'") }},
	{"WrapAllRune", func(q *pool16) any { return gogu.WrapAllRune(q.str, "'") }},
	{"ReverseStr", func(q *pool16) any { return gogu.ReverseStr(q.str) }},
	{"heap.FromSlice", func(q *pool16) any {
		heap.FromSlice(q.s1, func(a, b int) bool { return a < b })
		return nil
	}},
	{"heap.Sort", func(q *pool16) any { return heap.Sort(q.s1, func(a, b int) bool { return a < b }) }},
}

var helperIdx16 = func() map[string]int {
	m := map[string]int{}
	for i, h := range helpers16 {
		m[h.name] = i
	}
	return m
}()

// returnsStorage: helpers whose result is a slice or map (candidates for "an earlier result").
func returnsStorage(v any) bool {
	switch v.(type) {
	case []int, [][]int, [2][]int, map[int]int, map[int][]int, []map[int]int, [2][]map[int]int, []map[int]map[int]int, []string:
		return true
	}
	return false
}

type c16Runner struct{ params []string }

func safeRun(h helper16, q *pool16) (v any, status string) {
	status = "ok"
	defer func() {
		if recover() != nil {
			v, status = nil, "panic"
		}
	}()
	return h.run(q), status
}

func (r *c16Runner) Do(op []string) string {
	switch op[0] {
	case "call":
		h := helpers16[helperIdx16[op[1]]]
		q := newPool16(r.params)
		before := q.snapshot()
		_, st := safeRun(h, q)
		return before + " " + q.snapshot() + " " + st
	case "pair":
		h1, h2 := helpers16[helperIdx16[op[1]]], helpers16[helperIdx16[op[2]]]
		q := newPool16(r.params)
		v, st := safeRun(h1, q)
		if st != "ok" || !returnsStorage(v) {
			return "skip skip F"
		}
		first := "r=" + resStr(v)
		al := q.aliases(v)
		safeRun(h2, q)
		return first + " r=" + resStr(v) + " " + b2s(al)
	}
	panic("harness: bad op " + op[0])
}

func pairsStr(m [][2]int) string {
	parts := make([]string, len(m))
	for i, kv := range m {
		parts[i] = fmt.Sprintf("[%d,%d]", kv[0], kv[1])
	}
	return plist(parts)
}

func init() {
	kinds["c16"] = func(p []string) Runner { return &c16Runner{params: p} }
	gens["C16"] = genC16
}

func genC16(g *Gen) {
	var ops []string
	for _, h := range helpers16 {
		ops = append(ops, "call "+h.name)
	}
	var pairOps []string
	for _, h1 := range helpers16 {
		for _, h2 := range helpers16 {
			pairOps = append(pairOps, "pair "+h1.name+" "+h2.name)
		}
	}
	maps := [][][2]int{{}, {{1, 2}}, {{1, 2}, {2, 2}, {3, 1}}, {{0, 0}, {2, 3}}}
	strs := []string{"", "ab", "'a b'", "Foo-bar_baz", "öa"}
	maxLen := 3
	if g.Thorough() {
		maxLen = 4
	}
	i := 0
	allSlices([]int{1, 2, 3}, maxLen, func(cur []int) {
		s1 := append([]int{}, cur...)
		for _, s2 := range [][]int{{}, {2}, {3, 1}, {1, 2, 3}, {2, 2, 1, 3}} {
			i++
			if !g.Mine() {
				continue
			}
			n := []int{-2, 0, 1, 2, 5}[i%5]
			params := []string{ints(s1), ints(s2), itoa(n), itoa(i % 6), itoa((i / 2) % 6),
				pairsStr(maps[i%4]), pairsStr(maps[(i/3)%4]), ints([]int{1, 3}[:i%3]), hx(strs[i%5])}
			g.Emit("c16", params, ops)
			// the full pair matrix is large: every case runs a rotating slice of it (thorough: all of it)
			if g.Thorough() {
				g.Emit("c16", params, pairOps)
			} else {
				k := len(pairOps) / 8
				lo := (i % 8) * k
				g.Emit("c16", params, pairOps[lo:lo+k])
			}
		}
	})
	rng := g.Rng("c16")
	cases := 40
	if g.Thorough() {
		cases = 400
	}
	for c := 0; c < cases; c++ {
		mk := func(maxLen int) []int {
			a := make([]int, rng.Intn(maxLen+1))
			for j := range a {
				a[j] = rng.Range(-3, 9)
			}
			return a
		}
		mkm := func() [][2]int {
			var out [][2]int
			seen := map[int]bool{}
			for j := rng.Intn(6); j > 0; j-- {
				k := rng.Range(0, 8)
				if !seen[k] {
					seen[k] = true
					out = append(out, [2]int{k, rng.Range(0, 4)})
				}
			}
			return out
		}
		params := []string{ints(mk(12)), ints(mk(12)), itoa(rng.Range(-4, 14)), itoa(rng.Intn(6)), itoa(rng.Intn(6)),
			pairsStr(mkm()), pairsStr(mkm()), ints(mk(4)), hx(strs[rng.Intn(len(strs))])}
		g.Emit("c16", params, ops)
		k := len(pairOps) / 8
		lo := rng.Intn(8) * k
		g.Emit("c16", params, pairOps[lo:lo+k])
	}
}
