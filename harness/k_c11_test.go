package main

import (
	"sort"
	"strings"
	"time"

	"github.com/esimov/gogu"
)

// ---- C11: set-algebra slice helpers ------------------------------------------------------------------
//
// CASE c11 int|str
//   unique L | uniqueby F L | dup L | dupidx L
//   union N                       N: nested value, see c11Codec.nested
//   inter LL | interby F LL       LL: list of slices ([] = no argument at all: the code panics)
//   diff L L | diffby F L L | without L L
//
// Elements are ints (`int`) or hex byte strings (`str`).  Results: slices as lists (nil = empty),
// Duplicate sorted, DuplicateWithIndex as sorted [key,index] pairs, Union as `ok L` / `err L`.

type c11Codec[T comparable] struct {
	dec  func(string) T
	enc  func(T) string
	less func(a, b T) bool
	fn   func(name string) func(T) T
	// bad builds a value that is neither T, []T nor []any
	bad func(kind string, sample []T) any
}

func (c *c11Codec[T]) list(tok string) []T {
	items := parseList(tok)
	out := make([]T, len(items))
	for i, it := range items {
		out[i] = c.dec(it)
	}
	return out
}

func (c *c11Codec[T]) lists(tok string) [][]T {
	items := parseList(tok)
	out := make([][]T, len(items))
	for i, it := range items {
		out[i] = c.list(it)
	}
	return out
}

func (c *c11Codec[T]) render(a []T) string {
	items := make([]string, len(a))
	for i, x := range a {
		items[i] = c.enc(x)
	}
	return plist(items)
}

// nested builds the Go value of a protocol tree:
//
//	[a,b,…]    a []any holding the nested values a, b, …        ([] = empty []any)
//	[s,1,2]    a typed slice []T{1,2}                            ([s] = empty []T)
//	1 / x61    a bare element of type T
//	bad0       a scalar of another type        bad1  a slice of another element type
//	bad2       a nil interface                 bad3  a [][]T (typed nesting: not supported by the type switch)
func (c *c11Codec[T]) nested(tok string) any {
	if strings.HasPrefix(tok, "[") {
		items := parseList(tok)
		if len(items) > 0 && items[0] == "s" {
			out := make([]T, 0, len(items)-1)
			for _, it := range items[1:] {
				out = append(out, c.dec(it))
			}
			return out
		}
		out := make([]any, 0, len(items))
		for _, it := range items {
			out = append(out, c.nested(it))
		}
		return out
	}
	if strings.HasPrefix(tok, "bad") {
		return c.bad(tok, nil)
	}
	return c.dec(tok)
}

// nestedShared builds the same nesting as nested, but all typed []T leaves are views of ONE backing array laid
// out in the order second leaf, first leaf, third leaf, …: the spare capacity behind a leaf is another leaf.
// Union must give the same answer whatever the memory layout of its inputs (it only reads them).
func (c *c11Codec[T]) nestedShared(tok string) any {
	var leaves [][]T
	var collect func(tok string)
	collect = func(tok string) {
		if !strings.HasPrefix(tok, "[") {
			return
		}
		items := parseList(tok)
		if len(items) > 0 && items[0] == "s" {
			var l []T
			for _, it := range items[1:] {
				l = append(l, c.dec(it))
			}
			leaves = append(leaves, l)
			return
		}
		for _, it := range items {
			collect(it)
		}
	}
	collect(tok)
	order := make([]int, len(leaves))
	for i := range order {
		order[i] = i
	}
	if len(order) >= 2 {
		order[0], order[1] = 1, 0
	}
	var flat []T
	off := make([]int, len(leaves))
	for _, li := range order {
		off[li] = len(flat)
		flat = append(flat, leaves[li]...)
	}
	flat = append(flat, make([]T, 4)...) // some spare room behind the last leaf as well
	next := 0
	var build func(tok string) any
	build = func(tok string) any {
		if strings.HasPrefix(tok, "[") {
			items := parseList(tok)
			if len(items) > 0 && items[0] == "s" {
				li := next
				next++
				return flat[off[li] : off[li]+len(leaves[li])]
			}
			out := make([]any, 0, len(items))
			for _, it := range items {
				out = append(out, build(it))
			}
			return out
		}
		if strings.HasPrefix(tok, "bad") {
			return c.bad(tok, nil)
		}
		return c.dec(tok)
	}
	return build(tok)
}

type c11Runner[T comparable] struct{ c *c11Codec[T] }

func (r *c11Runner[T]) Do(op []string) string {
	c := r.c
	switch op[0] {
	case "unique":
		return c.render(gogu.Unique(c.list(op[1])))
	case "uniqueby":
		return c.render(gogu.UniqueBy(c.list(op[2]), ft1(c.fn(op[1]))))
	case "dup":
		res := gogu.Duplicate(c.list(op[1]))
		sort.Slice(res, func(i, j int) bool { return c.less(res[i], res[j]) })
		return c.render(res)
	case "dupidx":
		m := gogu.DuplicateWithIndex(c.list(op[1]))
		keys := make([]T, 0, len(m))
		for k := range m {
			keys = append(keys, k)
		}
		sort.Slice(keys, func(i, j int) bool { return c.less(keys[i], keys[j]) })
		items := make([]string, len(keys))
		for i, k := range keys {
			items[i] = "[" + c.enc(k) + "," + itoa(m[k]) + "]"
		}
		return plist(items)
	case "union":
		res, err := gogu.Union[T](c.nested(op[1]))
		return errs(err) + " " + c.render(res)
	case "unionshared":
		res, err := gogu.Union[T](c.nestedShared(op[1]))
		return errs(err) + " " + c.render(res)
	case "inter":
		return c.render(gogu.Intersection(c.lists(op[1])...))
	case "interby":
		return c.render(gogu.IntersectionBy(ft1(c.fn(op[1])), c.lists(op[2])...))
	case "diff":
		return c.render(gogu.Difference(c.list(op[1]), c.list(op[2])))
	case "diffby":
		return c.render(gogu.DifferenceBy(c.list(op[2]), c.list(op[3]), ft1(c.fn(op[1]))))
	case "without":
		return c.render(gogu.Without[T, T](c.list(op[1]), c.list(op[2])...))
	}
	panic("harness: bad c11 op " + op[0])
}

var c11Int = &c11Codec[int]{
	dec:  atoi,
	enc:  itoa,
	less: func(a, b int) bool { return a < b },
	fn: func(name string) func(int) int {
		switch name {
		case "f0":
			return func(x int) int { return x }
		case "f1":
			return func(x int) int { return x % 2 }
		case "f2":
			return func(x int) int { return x / 2 }
		case "f3":
			return func(x int) int { return 0 }
		case "f4":
			return func(x int) int { return -x }
		case "f5":
			return func(x int) int { return x * x }
		}
		panic("harness: bad key function " + name)
	},
	bad: func(kind string, _ []int) any {
		switch kind {
		case "bad0":
			return "oops"
		case "bad1":
			return []string{"a"}
		case "bad2":
			return nil
		case "bad3":
			return [][]int{{1, 2}, {2}}
		}
		panic("harness: bad malformed leaf " + kind)
	},
}

// string key functions: g0 identity, g1 first byte, g2 all but the first byte, g3 constant ""
var c11Str = &c11Codec[string]{
	dec:  unhx,
	enc:  hx,
	less: func(a, b string) bool { return a < b },
	fn: func(name string) func(string) string {
		switch name {
		case "g0":
			return func(x string) string { return x }
		case "g1":
			return func(x string) string {
				if len(x) > 1 {
					return x[:1]
				}
				return x
			}
		case "g2":
			return func(x string) string {
				if len(x) > 0 {
					return x[1:]
				}
				return x
			}
		case "g3":
			return func(x string) string { return "" }
		}
		panic("harness: bad key function " + name)
	},
	bad: func(kind string, _ []string) any {
		switch kind {
		case "bad0":
			return 42
		case "bad1":
			return []int{1}
		case "bad2":
			return nil
		case "bad3":
			return [][]string{{"a"}, {"b"}}
		}
		panic("harness: bad malformed leaf " + kind)
	},
}

// the int stream instantiated with T = any (see encAny): only the functions that take typed []T arguments
var c11Any = &c11Codec[any]{
	dec:  func(tok string) any { return encAny(atoi(tok)) },
	enc:  func(x any) string { return itoa(decAny(x)) },
	less: func(a, b any) bool { return decAny(a) < decAny(b) },
	fn: func(name string) func(any) any {
		f := c11Int.fn(name)
		return func(x any) any { return encAny(f(decAny(x))) }
	},
	bad: func(kind string, _ []any) any { panic("harness: no malformed leaves with T = any") },
}

func init() {
	kinds["c11"] = func(p []string) Runner {
		if len(p) > 0 && p[0] == "str" {
			return &c11Runner[string]{c11Str}
		}
		if len(p) > 0 && p[0] == "any" {
			return &c11Runner[any]{c11Any}
		}
		return &c11Runner[int]{c11Int}
	}
	gens["C11"] = genC11
}

// c11Batch collects op lines and emits them as cases of about `size` lines.
type c11Batch struct {
	g    *Gen
	elem string
	size int
	ops  []string
}

func (b *c11Batch) add(op string) {
	b.ops = append(b.ops, op)
	if len(b.ops) >= b.size {
		b.flush()
	}
}

func (b *c11Batch) flush() {
	if len(b.ops) > 0 {
		b.g.Emit("c11", []string{b.elem}, b.ops)
		b.ops = nil
	}
}

// c11Trees enumerates the protocol trees of weight exactly w (atom = 1, list = 1 + children) whose
// []any nesting depth is at most depth.
func c11Trees(atoms []string, w, depth int, memo map[[2]int][]string) []string {
	key := [2]int{w, depth}
	if r, ok := memo[key]; ok {
		return r
	}
	var out []string
	if w == 1 {
		out = append(out, atoms...)
	}
	if depth > 0 {
		for _, seq := range c11Seqs(atoms, w-1, depth-1, memo) {
			out = append(out, "["+seq+"]")
		}
	}
	memo[key] = out
	return out
}

// c11Seqs: comma-joined sequences of trees of total weight n (each of nesting depth <= depth).
func c11Seqs(atoms []string, n, depth int, memo map[[2]int][]string) []string {
	if n == 0 {
		return []string{""}
	}
	var out []string
	for k := 1; k <= n; k++ {
		heads := c11Trees(atoms, k, depth, memo)
		if len(heads) == 0 {
			continue
		}
		tails := c11Seqs(atoms, n-k, depth, memo)
		for _, h := range heads {
			for _, t := range tails {
				if t == "" {
					out = append(out, h)
				} else {
					out = append(out, h+","+t)
				}
			}
		}
	}
	return out
}

func c11RandTree(r *SplitMix, enc func(int) string, vals, depth int, badPct int) string {
	p := r.Intn(100)
	switch {
	case p < badPct:
		return "bad" + itoa(r.Intn(4))
	case depth == 0 || p < 30:
		return enc(r.Intn(vals))
	case p < 50:
		items := []string{"s"}
		for i, n := 0, r.Intn(5); i < n; i++ {
			items = append(items, enc(r.Intn(vals)))
		}
		return plist(items)
	default:
		var items []string
		for i, n := 0, r.Intn(5); i < n; i++ {
			items = append(items, c11RandTree(r, enc, vals, depth-1, badPct))
		}
		return plist(items)
	}
}

func genC11(g *Gen) {
	// The calls of this group are loops over finite slices: they cannot diverge.  The per-op watchdog
	// (4 s) would only report scheduling stalls of an oversubscribed machine as `hang`; widen it.
	hangLimit = 120 * time.Second
	intFns := []string{"f0", "f1", "f2", "f3", "f4", "f5"}
	strFns := []string{"g0", "g1", "g2", "g3"}
	bi := &c11Batch{g: g, elem: "int", size: 36}
	bs := &c11Batch{g: g, elem: "str", size: 36}

	// alphabets: the key functions x%2, x/2, -x, x*x all collapse some of -1,0,1,2
	alpha4 := []int{-1, 0, 1, 2}
	alpha3 := []int{-1, 1, 2}
	strAlpha := []string{"x", "x61", "x62", "x6162"} // "", "a", "b", "ab"
	encStr := func(a []int) string {
		items := make([]string, len(a))
		for i, x := range a {
			items[i] = strAlpha[x]
		}
		return plist(items)
	}
	collect := func(vals []int, maxLen int) []string {
		var out []string
		allSlices(vals, maxLen, func(s []int) { out = append(out, ints(s)) })
		return out
	}
	collectStr := func(maxLen int) []string {
		var out []string
		allSlices([]int{0, 1, 2, 3}, maxLen, func(s []int) { out = append(out, encStr(s)) })
		return out
	}

	// (0) long inputs (lengths incl. thresholds a change introduced into the source)
	for li, n := range longLens(g.Thorough()) {
		if !g.Mine() {
			continue
		}
		a, b := ints(longSlice(n, li)), ints(longSlice(n/2+3, li+1))
		ops := []string{"unique " + a, "dup " + a, "dupidx " + a, "inter [" + a + "]", "inter [" + a + "," + b + "]",
			"without " + a + " [0,1,-2]", "diff " + a + " " + b, "diff " + b + " " + a, "union [" + a + ",[" + b + "]]"}
		for _, f := range intFns {
			ops = append(ops, "uniqueby "+f+" "+a, "interby "+f+" ["+a+","+b+"]", "diffby "+f+" "+a+" "+b)
		}
		g.Emit("c11", []string{"int"}, ops)
	}
	// (0a) skewed long inputs: one value occurs 255 .. 2s+1 times (narrow counters, count thresholds)
	for li, c := range skewLens(g.Thorough()) {
		if !g.Mine() {
			continue
		}
		a, b := ints(skewSlice(c, li)), ints([]int{8, 3, 3, 21})
		ops := []string{"dup " + a, "dupidx " + a, "unique " + a, "inter [" + a + "," + b + "]", "inter [" + b + "," + a + "]",
			"without " + a + " [0,-4]", "diff " + a + " " + b, "diff " + b + " " + a, "union [" + a + ",[" + b + "]]"}
		for _, f := range intFns {
			ops = append(ops, "uniqueby "+f+" "+a, "interby "+f+" ["+a+","+b+"]", "diffby "+f+" "+a+" "+b)
		}
		g.Emit("c11", []string{"int"}, ops)
	}
	// (0c) T = any: every slice up to length 5 over {-1,0,1,2} (0 and 1 print alike, and so do 2 and 3), and pairs
	ba := &c11Batch{g: g, elem: "any", size: 60}
	for _, s := range collect([]int{-1, 0, 1, 2}, 5) {
		if !g.Mine() {
			continue
		}
		ba.add("unique " + s)
		ba.add("dup " + s)
		ba.add("dupidx " + s)
		ba.add("inter [" + s + "]")
		ba.add("without " + s + " [0]")
		ba.add("without " + s + " [1,2]")
		ba.add("uniqueby f1 " + s)
	}
	{
		p3 := collect([]int{0, 1, 2, 3}, 3)
		for _, s1 := range p3 {
			if !g.Mine() {
				continue
			}
			for _, s2 := range p3 {
				ba.add("diff " + s1 + " " + s2)
				ba.add("inter [" + s1 + "," + s2 + "]")
				ba.add("diffby f1 " + s1 + " " + s2)
				ba.add("interby f1 [" + s1 + "," + s2 + "]")
			}
		}
	}
	ba.flush()
	// (0b) Union on typed leaves that share one backing array (memory layout must not matter)
	if g.Mine() {
		var ops []string
		for _, t := range []string{"[[s,4,5,6],[s,1,2,3],[s,7,8,9]]", "[[s,1,2],9,[s,1,2,3]]", "[[s,1],[[s,2,3],[s,4]],5,[s,6,7,8]]",
			"[[s],[s,1,1],[s,2]]", "[[s,3,3],[[s,3]],[s,0,1]]", "[[s,1,2,3,4,5],[s,6],[s,7],[s,8,9]]", "[7,[s,1,2],[8,[s,3,4]],[s,5,6]]"} {
			ops = append(ops, "unionshared "+t, "union "+t)
		}
		g.Emit("c11", []string{"int"}, ops)
	}
	// (1) one-slice functions: every slice up to length 6 over 4 values (thorough: 7)
	l1 := 6
	if g.Thorough() {
		l1 = 7
	}
	for _, s := range collect(alpha4, l1) {
		if !g.Mine() {
			continue
		}
		bi.add("unique " + s)
		bi.add("dup " + s)
		bi.add("dupidx " + s)
		bi.add("inter [" + s + "]")
		bi.add("without " + s + " []")
		for _, f := range intFns {
			bi.add("uniqueby " + f + " " + s)
		}
		bi.add("interby f2 [" + s + "]")
	}
	bi.flush()
	ls := 5
	if g.Thorough() {
		ls = 6
	}
	for _, s := range collectStr(ls) {
		if !g.Mine() {
			continue
		}
		bs.add("unique " + s)
		bs.add("dup " + s)
		bs.add("dupidx " + s)
		bs.add("inter [" + s + "]")
		for _, f := range strFns {
			bs.add("uniqueby " + f + " " + s)
		}
	}
	bs.flush()

	// (2) pairs of slices
	pairs := func(b *c11Batch, a1, a2 []string, fns []string) {
		for _, s1 := range a1 {
			for i := 0; i < len(a2); i += 8 {
				if !g.Mine() {
					continue
				}
				for _, s2 := range a2[i:min(i+8, len(a2))] {
					b.add("diff " + s1 + " " + s2)
					b.add("without " + s1 + " " + s2)
					b.add("inter [" + s1 + "," + s2 + "]")
					for _, f := range fns {
						b.add("diffby " + f + " " + s1 + " " + s2)
						b.add("interby " + f + " [" + s1 + "," + s2 + "]")
					}
				}
				b.flush()
			}
		}
	}
	if g.Thorough() {
		p3 := collect(alpha3, 6)
		pairs(bi, p3, p3, intFns[1:])
		p4 := collect(alpha4, 5)
		pairs(bi, p4, p4, intFns[1:])
		ps := collectStr(4)
		pairs(bs, ps, ps, strFns[1:])
	} else {
		p4 := collect(alpha4, 4)
		pairs(bi, p4, p4, []string{"f1", "f2", "f5"})
		// longer first argument against short second ones
		pairs(bi, collect(alpha3, 6), collect(alpha3, 2), []string{"f2"})
		ps := collectStr(3)
		pairs(bs, ps, ps, []string{"g1", "g2"})
	}

	// (3) triples of slices
	triples := func(b *c11Batch, a []string, fns []string) {
		for _, s1 := range a {
			for _, s2 := range a {
				if !g.Mine() {
					continue
				}
				for _, s3 := range a {
					arg := "[" + s1 + "," + s2 + "," + s3 + "]"
					b.add("inter " + arg)
					for _, f := range fns {
						b.add("interby " + f + " " + arg)
					}
				}
				b.flush()
			}
		}
	}
	if g.Thorough() {
		triples(bi, collect(alpha3, 4), intFns[1:])
		triples(bi, collect(alpha4, 3), []string{"f1", "f2", "f5"})
		triples(bs, collectStr(2), strFns[1:])
	} else {
		triples(bi, collect(alpha3, 3), []string{"f1", "f2"})
		triples(bi, collect([]int{0, 1, 2, 3}, 2), []string{"f2"})
	}

	// (4) Union: every tree of weight <= W and []any depth <= 3 over the atoms below (one malformed leaf)
	atoms := []string{"0", "1", "[s]", "[s,1]", "[s,0,1]", "[s,2,0]", "bad0"}
	w := 6
	if g.Thorough() {
		w = 7
	}
	memo := map[[2]int][]string{}
	for k := 1; k <= w; k++ {
		for _, t := range c11Trees(atoms, k, 3, memo) {
			if !g.Mine() {
				continue
			}
			bi.add("union " + t)
		}
	}
	bi.flush()
	satoms := []string{"x61", "x", "[s]", "[s,x61,x]", "bad0"}
	memo = map[[2]int][]string{}
	for k := 1; k <= w-1; k++ {
		for _, t := range c11Trees(satoms, k, 3, memo) {
			if !g.Mine() {
				continue
			}
			bs.add("union " + t)
		}
	}
	bs.flush()

	// (5) malformed / edge stream: no argument at all (index panic), every kind of malformed leaf at
	// every position of a small tree, empty arguments in every position
	if g.Shard == 0 {
		var ops []string
		for _, b := range []string{"bad0", "bad1", "bad2", "bad3"} {
			ops = append(ops, "union "+b, "union ["+b+"]", "union [1,"+b+"]", "union ["+b+",1]",
				"union [[s,1,2],[[3,"+b+"]],4]", "union [[[["+b+"]]]]", "union [[s,1],[1,[2,[3,[4,[5]]]]],"+b+"]")
		}
		ops = append(ops, "union 5", "union [s,3,3,1]", "union []", "union [[],[[]],[[[]]]]", "union [[s],[[s]]]")
		for _, e := range []string{"[[],[1,2],[2]]", "[[1,2],[],[2]]", "[[1,2],[2],[]]", "[[],[],[]]", "[[]]", "[[1,1]]"} {
			ops = append(ops, "inter "+e, "interby f1 "+e)
		}
		ops = append(ops, "diff [] [1]", "diff [1,1] []", "diffby f3 [1,2] []", "diffby f3 [1,2] [7]", "without [] [1]",
			"unique []", "uniqueby f3 []", "dup []", "dupidx []", "dup [5]", "dupidx [5]")
		g.Emit("c11", []string{"int"}, ops)
		g.Emit("c11", []string{"int"}, []string{"unique [1,1]", "inter []"})
		g.Emit("c11", []string{"int"}, []string{"interby f0 []"})
		g.Emit("c11", []string{"str"}, []string{"union bad0", "union [x61,bad1]", "union [[s,x61],bad3]", "union bad2", "inter []"})
	}

	// (6) seeded random: longer slices, wider values, 1..5 arguments, deeper trees
	n := 1500
	if g.Thorough() {
		n = 15000
	}
	r := g.Rng("C11")
	randSlice := func(vals, maxLen int, enc func(int) string) string {
		m := r.Intn(maxLen + 1)
		items := make([]string, m)
		for i := range items {
			items[i] = enc(r.Intn(vals))
		}
		return plist(items)
	}
	words := []string{"", "a", "b", "ab", "ba", "abc", "\xc3\xa9", "\x00", "b\xff", "aa"}
	for i := 0; i < n; i++ {
		str := r.Intn(4) == 0
		b, fns := bi, intFns
		vals := []int{3, 6, 12, 40}[r.Intn(4)]
		off := []int{0, -2, -20, 1000000}[r.Intn(4)]
		enc := func(x int) string { return itoa(x + off) }
		if str {
			b, fns = bs, strFns
			vals = []int{3, 6, 10}[r.Intn(3)]
			enc = func(x int) string { return hx(words[x]) }
		}
		maxLen := []int{4, 10, 40}[r.Intn(3)]
		for j := 0; j < 6; j++ {
			s := randSlice(vals, maxLen, enc)
			f := fns[r.Intn(len(fns))]
			b.add("unique " + s)
			b.add("uniqueby " + f + " " + s)
			b.add("dup " + s)
			b.add("dupidx " + s)
			s2 := randSlice(vals, maxLen, enc)
			b.add("diff " + s + " " + s2)
			b.add("diffby " + f + " " + s + " " + s2)
			b.add("without " + s + " " + s2)
			k := r.Range(1, 5)
			args := []string{s}
			for len(args) < k {
				if r.Intn(3) == 0 {
					args = append(args, randSlice(vals, maxLen, enc))
				} else {
					// mostly overlapping arguments, so that intersections are not empty
					args = append(args, randSlice(vals/2+1, maxLen+8, enc))
				}
			}
			b.add("inter " + plist(args))
			b.add("interby " + f + " " + plist(args))
			badPct := 0
			if r.Intn(5) == 0 {
				badPct = 4
			}
			b.add("union " + c11RandTree(r, enc, vals, r.Range(1, 6), badPct))
		}
		b.flush()
	}
}
