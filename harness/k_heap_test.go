package main

import (
	"github.com/esimov/gogu/heap"
)

// ---- C03: heap ---------------------------------------------------------------------------------
//
// Elements are ints.  Comparators: lt, gt (strict total orders), klt, kgt (by key x/10 on
// non-negative values: ties between elements with equal key).

// heapComp: all comparators are closures of ONE function literal that differ only in what they captured (as the
// method values of one method on different receivers do): a library that told comparators apart by their code
// would take them for the same function.
func heapComp(name string) func(a, b int) bool {
	var div int
	var desc bool
	switch name {
	case "lt":
		div, desc = 1, false
	case "gt":
		div, desc = 1, true
	case "klt":
		div, desc = 10, false
	case "kgt":
		div, desc = 10, true
	default:
		panic("harness: bad comparator " + name)
	}
	return func(a, b int) bool {
		if desc {
			return a/div > b/div
		}
		return a/div < b/div
	}
}

type heapRunner struct {
	h    *heap.Heap[int]
	comp string
	decoyHolder
}

func firstIndex(a []int, v int) int {
	for i, x := range a {
		if x == v {
			return i
		}
	}
	return -1
}

func (r *heapRunner) Do(op []string) string {
	switch op[0] {
	case "push":
		r.h.Push(atoi(op[1]))
		return "ok"
	case "pushn": // variadic Push
		r.h.Push(parseInts(op[1])...)
		return "ok"
	case "pop":
		return itoa(r.h.Pop())
	case "peek":
		return itoa(r.h.Peek())
	case "size":
		return itoa(r.h.Size())
	case "isempty":
		return b2s(r.h.IsEmpty())
	case "clear":
		r.h.Clear()
		return "ok"
	case "values":
		return ints(append([]int{}, r.h.GetValues()...))
	case "delete":
		// the slot of the victim in the implementation's own layout is reported for the monitor's
		// attribution of the known finding (heap.delete-no-resift)
		v := atoi(op[1])
		idx := firstIndex(r.h.GetValues(), v)
		ok, err := r.h.Delete(v)
		return b2s(ok) + " " + errs(err) + " " + itoa(idx)
	case "convert":
		r.comp = op[1]
		r.h.Convert(heapComp(op[1]))
		return "ok"
	case "merge", "meld":
		// second heap built by pushing the listed values (same comparator); afterwards the merged
		// heap becomes the current one.  Reports: receiver values, argument values, new values.
		h2 := heap.NewHeap(heapComp(r.comp))
		h2.Push(parseInts(op[1])...)
		var nh *heap.Heap[int]
		if op[0] == "merge" {
			nh = r.h.Merge(h2)
		} else {
			nh = r.h.Meld(h2)
		}
		res := ints(append([]int{}, r.h.GetValues()...)) + " " + ints(append([]int{}, h2.GetValues()...)) + " " +
			ints(append([]int{}, nh.GetValues()...)) + " " + itoa(r.h.Size()) + " " + itoa(h2.Size())
		r.h = nh
		return res
	case "fromslice", "fromslicespare":
		data := parseInts(op[1])
		if op[0] == "fromslicespare" {
			data = withSpare(data)
		}
		r.comp = op[2]
		r.h = heap.FromSlice(data, heapComp(op[2]))
		return ints(append([]int{}, r.h.GetValues()...))
	case "sort", "sortspare":
		data := parseInts(op[1])
		if op[0] == "sortspare" {
			data = withSpare(data)
		}
		out := heap.Sort(data, heapComp(op[2]))
		return ints(append([]int{}, out...))
	}
	panic("harness: bad op " + op[0])
}

// withSpare returns the same elements in a larger backing array: spare capacity behind the length
// (an append-grown slice, a prefix of a buffer), filled with values that are not elements.
func withSpare(data []int) []int {
	buf := make([]int, len(data)+1+len(data)%3)
	for i := range buf {
		buf[i] = -424242 - i
	}
	copy(buf, data)
	return buf[:len(data)]
}

func init() {
	kinds["heap"] = func(p []string) Runner {
		r := &heapRunner{h: heap.NewHeap(heapComp(p[0])), comp: p[0]}
		r.d.mk = func() decoy {
			h := heap.NewHeap(heapComp(p[0]))
			return decoy{put: func(v int) { h.Push(v) }, take: func() { h.Pop() }}
		}
		return r
	}
	gens["C03"] = genC03
}

var heapObs = []string{"size", "isempty", "peek", "values"}

func allSlices(vals []int, maxLen int, f func([]int)) {
	cur := []int{}
	var rec func()
	rec = func() {
		f(cur)
		if len(cur) == maxLen {
			return
		}
		for _, v := range vals {
			cur = append(cur, v)
			rec()
			cur = cur[:len(cur)-1]
		}
	}
	rec()
}

func genC03(g *Gen) {
	// (1) exhaustive mutation sequences
	muts := []string{"push 1", "push 2", "push 3", "push 4", "delete 1", "delete 2", "delete 3", "delete 4",
		"pop", "clear", "convert gt", "merge [2,1,3]", "meld [3,1]"}
	maxLen := 4
	if g.Thorough() {
		maxLen = 5
	}
	for _, comp := range []string{"lt", "gt"} {
		m := append([]string{}, muts...)
		if comp == "gt" {
			m[10] = "convert lt"
		}
		seqsUpTo(m, maxLen, func(s []string) {
			if !g.Mine() {
				return
			}
			ops := interleave(s, heapObs)
			for i := 0; i < 6; i++ { // final drain
				ops = append(ops, "pop")
			}
			ops = append(ops, "size")
			g.Emit("heap", []string{comp}, ops)
		})
	}
	// (1b) bulk runs across the capacity thresholds of the backing slice
	for _, comp := range []string{"lt", "gt"} {
		for _, pl := range bulkPlans(g.Thorough()) {
			if !g.Mine() {
				continue
			}
			g.Emit("heap", []string{comp}, bulkPlan(func(i int) string { return "push " + itoa((i*37)%101-3) }, "pop",
				[]string{"size", "peek"}, pl[0], pl[1], pl[2]))
		}
	}
	// (1c) big variadic Push / Merge / Meld batches onto a smaller non-empty heap, and reuse after Clear of a big
	// heap; sizes: standard ones and thresholds a change introduced into the source
	batch := []int{70, 300, 1100}
	if g.Thorough() {
		batch = append(batch, 2100, 4200)
	}
	for _, s := range extraSizes() {
		if s <= 100000 {
			batch = append(batch, s, s+1, 2*s+1)
		}
	}
	for _, comp := range []string{"lt", "gt"} {
		for bi, b := range batch {
			if !g.Mine() {
				continue
			}
			vals := make([]int, b)
			for i := range vals {
				vals[i] = (i*7919 + bi) % 1009
			}
			drain := func(k int) []string {
				var o []string
				for i := 0; i < k; i++ {
					o = append(o, "pop")
					if i%97 == 0 {
						o = append(o, "size", "peek")
					}
				}
				return o
			}
			small := []string{"push 500", "push 3", "push 999", "push 3", "push 77"}
			for _, verb := range []string{"pushn", "merge", "meld"} {
				ops := append([]string{}, small...)
				ops = append(ops, verb+" "+ints(vals), "size", "peek")
				ops = append(ops, drain(b+9)...)
				g.Emit("heap", []string{comp}, ops)
			}
			// fill big, Clear, reuse, remove
			ops := []string{"pushn " + ints(vals), "size", "clear", "size", "push 5", "push 3", "push 9", "size", "pop", "size", "peek",
				"delete 9", "size", "peek", "pop", "pop", "size"}
			g.Emit("heap", []string{comp}, ops)
			ops = []string{"pushn " + ints(vals), "clear", "push 5", "push 3", "push 9", "delete 3", "size", "peek", "values", "pop", "pop", "pop", "size"}
			g.Emit("heap", []string{comp}, ops)
		}
	}
	// (2) FromSlice / Sort on all slices up to length 6 (quick) / 7 (thorough) over 4 values
	sl := 6
	if g.Thorough() {
		sl = 7
	}
	for _, comp := range []string{"lt", "gt", "klt"} {
		vals := []int{1, 2, 3, 4}
		if comp == "klt" {
			vals = []int{10, 11, 20, 21}
		}
		allSlices(vals, sl, func(s []int) {
			if !g.Mine() {
				return
			}
			ops := []string{"fromslice " + ints(s) + " " + comp, "size", "peek"}
			for i := 0; i <= len(s); i++ {
				ops = append(ops, "pop")
			}
			ops = append(ops, "sort "+ints(s)+" "+comp)
			// the same calls on an argument with spare capacity behind its length
			ops = append(ops, "sortspare "+ints(s)+" "+comp, "fromslicespare "+ints(s)+" "+comp, "size", "peek", "push 2", "push 1")
			for i := 0; i <= len(s)+2; i++ {
				ops = append(ops, "pop")
			}
			g.Emit("heap", []string{comp}, ops)
		})
	}
	// (3) seeded random histories over wider alphabets, all comparators
	n := 400
	if g.Thorough() {
		n = 8000
	}
	r := g.Rng("C03")
	comps := []string{"lt", "gt", "klt", "kgt"}
	for i := 0; i < n; i++ {
		comp := comps[r.Intn(4)]
		keyed := comp[0] == 'k'
		val := func() int {
			if keyed {
				return r.Intn(6)*10 + r.Intn(3)
			}
			return r.Range(-3, 12)
		}
		vals := func(k int) []int {
			out := make([]int, k)
			for j := range out {
				out[j] = val()
			}
			return out
		}
		var ops []string
		length := r.Range(5, 120)
		if r.Intn(4) == 0 {
			ops = append(ops, []string{"fromslice ", "fromslicespare "}[r.Intn(2)]+ints(vals(r.Intn(20)))+" "+comp)
		}
		for j := 0; j < length; j++ {
			p := r.Intn(100)
			switch {
			case p < 45:
				ops = append(ops, "push "+itoa(val()))
			case p < 65:
				ops = append(ops, "pop")
			case p < 80:
				ops = append(ops, "delete "+itoa(val()))
			case p < 83:
				ops = append(ops, "clear")
			case p < 88:
				c := comps[r.Intn(2)]
				if keyed {
					c = comps[2+r.Intn(2)]
				}
				ops = append(ops, "convert "+c)
			case p < 91:
				ops = append(ops, "merge "+ints(vals(r.Intn(6))))
			case p < 94:
				ops = append(ops, "meld "+ints(vals(r.Intn(6))))
			case p < 97:
				ops = append(ops, "pushn "+ints(vals(r.Intn(5))))
			default:
				c := comp
				ops = append(ops, []string{"sort ", "sortspare "}[r.Intn(2)]+ints(vals(r.Intn(12)))+" "+c)
			}
			if r.Intn(2) == 0 {
				ops = append(ops, "peek", "size")
			}
			if r.Intn(4) == 0 {
				ops = append(ops, "values", "isempty")
			}
		}
		ops = append(ops, "values")
		for j := 0; j < 40; j++ {
			ops = append(ops, "pop")
		}
		ops = append(ops, "size")
		if len(ops)%3 == 0 { // other live instances of the same type are operated in between
			ops = withDecoys(ops, r, nil)
		}
		g.Emit("heap", []string{comp}, ops)
	}
}
