package main

import (
	"sort"
	"time"

	"github.com/esimov/gogu/cache"
)

// ---- C08: expiring cache (virtual clock) ----------------------------------------------------------
//
// CASE cache <defaultExpiryMs> <cleanupMs> <int|str>
// Durations travel in milliseconds; -1 = NoExpiration, 0 = DefaultExpiration.  Keys are k0,k1,…
// For the string-valued cache value 0 stands for "" (which the cache rejects), v > 0 for "s<v>".

// durUnit is the unit durations travel in: milliseconds under the synctest harness (virtual clock); the C02
// interleaving engine, which runs on the real clock, sets it to microseconds so that letting an entry expire is cheap.
var durUnit = time.Millisecond

func dur(ms int) time.Duration {
	if ms < 0 {
		return cache.NoExpiration
	}
	return time.Duration(ms) * durUnit
}

type cacheAPI interface {
	Do(op []string) string
	Close()
}

type cacheRunner[V any] struct {
	c   *cache.Cache[string, V]
	enc func(int) V
	dec func(V) int
	// items handed out by Get, with the value read at that moment (`held` re-reads them)
	held     []*cache.Item[V]
	heldVals []int
}

func key(s string) string { return "k" + s }

func (r *cacheRunner[V]) Close() { r.c.VerifStopCleanup() }

func (r *cacheRunner[V]) Do(op []string) string {
	c := r.c
	switch op[0] {
	case "set":
		return errs(c.Set(key(op[1]), r.enc(atoi(op[2])), dur(atoi(op[3]))))
	case "setdefault":
		return errs(c.SetDefault(key(op[1]), r.enc(atoi(op[2]))))
	case "update":
		return errs(c.Update(key(op[1]), r.enc(atoi(op[2])), dur(atoi(op[3]))))
	case "get":
		it, err := c.Get(key(op[1]))
		if err != nil {
			if it != nil {
				return "0 err-with-item"
			}
			return "0 err"
		}
		v := r.dec(it.Val())
		if len(r.held) < 64 {
			r.held, r.heldVals = append(r.held, it), append(r.heldVals, v)
		}
		return itoa(v) + " ok"
	case "held": // every item Get has handed out so far: [value read at the time, value read now]
		items := make([]string, len(r.held))
		for i, it := range r.held {
			items[i] = "[" + itoa(r.heldVals[i]) + "," + itoa(r.dec(it.Val())) + "]"
		}
		return plist(items)
	case "delete":
		return errs(c.Delete(key(op[1])))
	case "flush":
		c.Flush()
		return "ok"
	case "delexp":
		return errs(c.DeleteExpired())
	case "count":
		return itoa(c.Count())
	case "list":
		m := c.List()
		var ks []string
		for k := range m {
			ks = append(ks, k)
		}
		sort.Strings(ks)
		var items []string
		for _, k := range ks {
			items = append(items, "["+k[1:]+","+itoa(r.dec(m[k].Val()))+"]")
		}
		return plist(items)
	case "maptocache":
		m := map[string]V{}
		for _, e := range parseList(op[1]) {
			kv := parseInts(e)
			m[key(itoa(kv[0]))] = r.enc(kv[1])
		}
		return errs(c.MapToCache(m, dur(atoi(op[2]))))
	case "isexpired":
		return b2s(c.IsExpired(key(op[1])))
	case "sleep":
		// only reached outside the synctest harness (the C02 interleaving engine runs on the real clock): lets
		// an entry expire without being purged
		time.Sleep(time.Duration(atoi(op[1])) * durUnit)
		return "ok"
	}
	panic("harness: bad op " + op[0])
}

func init() {
	timedKinds["cache"] = true
	kinds["cache"] = func(p []string) Runner {
		exp, cl := dur(atoi(p[0])), dur(atoi(p[1]))
		if atoi(p[1]) < 0 {
			cl = -1
		}
		if p[2] == "str" {
			return &cacheRunner[string]{
				c: cache.New[string, string](exp, cl),
				enc: func(v int) string {
					if v == 0 {
						return ""
					}
					return "s" + itoa(v)
				},
				dec: func(s string) int {
					if s == "" {
						return 0
					}
					return atoi(s[1:])
				},
			}
		}
		return &cacheRunner[int]{
			c:   cache.New[string, int](exp, cl),
			enc: func(v int) int { return v },
			dec: func(v int) int { return v },
		}
	}
	gens["C08"] = genC08
}

func genC08(g *Gen) {
	// `held` re-reads every item Get has handed out so far (at most 64 per case are kept)
	obs := []string{"count", "list", "get 0", "get 1", "get 2", "isexpired 0", "isexpired 1", "isexpired 2", "held"}
	// (1) time-free exhaustive part: durations default(0), none(-1), long(1000), short(5: expires only if time passes)
	var muts []string
	for k := 0; k < 3; k++ {
		ks := itoa(k)
		for _, d := range []string{"0", "-1", "1000"} {
			muts = append(muts, "set "+ks+" V "+d, "update "+ks+" V "+d)
		}
		muts = append(muts, "set "+ks+" 0 0", "update "+ks+" 0 -1") // value 0: rejected by the string cache
		muts = append(muts, "delete "+ks)
	}
	muts = append(muts, "flush", "delexp", "maptocache [[0,V],[1,V]] 0", "maptocache [[1,0],[2,V]] -1")
	maxLen := 2
	if g.Thorough() {
		maxLen = 3
	}
	for _, exp := range []string{"-1", "0", "1000"} {
		for _, cl := range []string{"0", "50"} {
			for _, vt := range []string{"int", "str"} {
				seqsUpTo(muts, maxLen, func(s []string) {
					if !g.Mine() {
						return
					}
					ms := make([]string, len(s))
					for i, m := range s {
						ms[i] = replaceAllV(m, itoa(10+i))
					}
					g.Emit("cache", []string{exp, cl, vt}, interleave(ms, obs))
				})
			}
		}
	}
	// (1b) big MapToCache batches onto caches that hold never-expiring / default / expiring entries; sizes: standard
	// ones and thresholds a change introduced into the source
	for _, b := range append([]int{40, 300}, func() []int {
		var o []int
		for _, s := range extraSizes() {
			if s <= 40000 {
				o = append(o, s-1, s, s+1)
			}
		}
		return o
	}()...) {
		for _, exp := range []string{"-1", "0", "1000"} {
			if !g.Mine() {
				continue
			}
			var pairs []string
			for i := 0; i < b; i++ {
				pairs = append(pairs, "["+itoa(10+i)+","+itoa(1+i%7)+"]")
			}
			ops := []string{"set 0 5 -1", "set 1 6 0", "set 2 7 1000", "count", "maptocache " + plist(pairs) + " 0", "count",
				"get 0", "get 1", "get 2", "get 10", "get " + itoa(9+b), "isexpired 0", "maptocache " + plist(append([]string{"[0,9]"}, pairs[:2]...)) + " -1",
				"count", "get 0", "delexp", "count", "get 0", "get 1"}
			g.Emit("cache", []string{exp, "0", "int"}, ops)
		}
	}
	// (2) timed part: scripted sleeps placing observations before / at / after deadlines and ticks
	n := 500
	if g.Thorough() {
		n = 8000
	}
	r := g.Rng("C08")
	for i := 0; i < n; i++ {
		exp := []string{"-1", "0", "20", "35", "9223372036854"}[r.Intn(5)]
		cl := []string{"0", "10", "25"}[r.Intn(3)]
		vt := []string{"int", "str"}[r.Intn(2)]
		var ops []string
		length := r.Range(4, 30)
		for j := 0; j < length; j++ {
			k := itoa(r.Intn(3))
			v := itoa(r.Intn(5))
			// the last one: the longest duration there is (in ms): "for ever"; its deadline lies beyond the int64 range
			d := []string{"0", "-1", "10", "20", "30", "7", "9223372036854"}[r.Intn(7)]
			p := r.Intn(100)
			switch {
			case p < 20:
				ops = append(ops, "set "+k+" "+v+" "+d)
			case p < 32:
				ops = append(ops, "update "+k+" "+v+" "+d)
			case p < 37:
				ops = append(ops, "setdefault "+k+" "+v)
			case p < 62:
				ops = append(ops, "sleep "+[]string{"1", "5", "9", "10", "11", "15", "20", "21", "25", "30", "40"}[r.Intn(11)])
			case p < 67:
				ops = append(ops, "delete "+k)
			case p < 69:
				ops = append(ops, "flush")
			case p < 74:
				ops = append(ops, "delexp")
			case p < 78:
				ops = append(ops, "maptocache [["+k+","+v+"],["+itoa((atoi(k)+1)%3)+","+itoa(r.Intn(5))+"]] "+d)
			default:
				ops = append(ops, "get "+k, "isexpired "+k)
			}
			if r.Intn(3) == 0 {
				ops = append(ops, "count", "list")
			}
		}
		ops = append(ops, obs...)
		ops = append(ops, "sleep 100")
		ops = append(ops, obs...)
		g.Emit("cache", []string{exp, cl, vt}, ops)
	}
}

func replaceAllV(s, v string) string {
	out := ""
	for i := 0; i < len(s); i++ {
		if s[i] == 'V' {
			out += v
		} else {
			out += string(s[i])
		}
	}
	return out
}
