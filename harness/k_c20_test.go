package main

import (
	"runtime"
	"sort"
	"strings"
	"sync"
	"sync/atomic"
	"testing/synctest"
	"time"

	"github.com/esimov/gogu"
)

// ---- C20: Delay / NewDebounce / NewThrottle (virtual clock, testing/synctest) ------------------------
//
// All three kinds run inside a synctest bubble (timedKinds); `sleep <ms>` is executed by the harness
// itself and advances the virtual clock.  Every other result starts with the current virtual time in
// ms since the start of the case.  After every op the runner calls synctest.Wait() so that timer
// goroutines and woken Next callers have settled before the observation is taken.
//
//	CASE debounce <waitMs>
//	  call   => <now>                     the debounced function is called with a logging callback
//	  cancel => <now>
//	  fired  => <now> [[fireTime,callNo,callTime],…]      in firing order (callNo = 0-based number of the `call`)
//	CASE delay
//	  delay <ms> => <now> <id>            gogu.Delay(ms, logging callback); ids 0,1,2,…
//	  stop <id>  => <now> T|F             Timer.Stop of timer <id>
//	  fired      => <now> [[fireTime,id,callTime],…]      sorted by (fireTime, id)
//	CASE throttle <durationMs> <T|F trailing>
//	  call   => <now>
//	  cancel => <now>
//	  next   => <now> <id> T|F|blocked    a goroutine calls Next(); T/F if it has returned already
//	  done   => <now> [[id,returnTime,1|0],…]             completed Next calls in completion order

func c20ms(ms int) time.Duration { return time.Duration(ms) * time.Millisecond }

type c20clock struct{ start time.Time }

func (c *c20clock) now() int { return int(time.Since(c.start) / time.Millisecond) }

func c20triples(l [][3]int) string {
	items := make([]string, len(l))
	for i, e := range l {
		items[i] = "[" + itoa(e[0]) + "," + itoa(e[1]) + "," + itoa(e[2]) + "]"
	}
	return plist(items)
}

// -- debounce

type debounceRunner struct {
	c20clock
	call   func(func())
	cancel func()
	mu     sync.Mutex
	log    [][3]int
	ncalls int
	slow   int // ms the debounced function itself takes (after it has logged its start)
}

func (r *debounceRunner) Close() { r.cancel(); synctest.Wait() }

func (r *debounceRunner) Do(op []string) string {
	switch op[0] {
	case "slow":
		// from now on the debounced function takes <ms> of (virtual) time: calls and cancels may arrive while it runs
		r.slow = atoi(op[1])
		return itoa(r.now())
	case "call":
		k, tc := r.ncalls, r.now()
		r.ncalls++
		slow := r.slow
		r.call(func() {
			r.mu.Lock()
			r.log = append(r.log, [3]int{r.now(), k, tc})
			r.mu.Unlock()
			if slow > 0 {
				time.Sleep(c20ms(slow))
			}
		})
		synctest.Wait()
		return itoa(r.now())
	case "parcall":
		// parcall <goroutines> <calls each>: a burst issued by several goroutines at one virtual instant; it counts
		// as ONE call of the history (all callbacks carry the same call number), so "at most once per burst"
		// becomes "at most one log entry with this number"
		k, tc := r.ncalls, r.now()
		r.ncalls++
		var wg sync.WaitGroup
		for gi := 0; gi < atoi(op[1]); gi++ {
			wg.Add(1)
			go func() {
				defer wg.Done()
				for j := 0; j < atoi(op[2]); j++ {
					r.call(func() {
						r.mu.Lock()
						r.log = append(r.log, [3]int{r.now(), k, tc})
						r.mu.Unlock()
					})
				}
			}()
		}
		wg.Wait()
		synctest.Wait()
		return itoa(r.now())
	case "cancel":
		r.cancel()
		synctest.Wait()
		return itoa(r.now())
	case "fired":
		r.mu.Lock()
		defer r.mu.Unlock()
		return itoa(r.now()) + " " + c20triples(r.log)
	}
	panic("harness: bad op " + op[0])
}

// -- delay

type delayRunner struct {
	c20clock
	mu     sync.Mutex
	log    [][3]int
	timers []*time.Timer
}

func (r *delayRunner) Close() {
	for _, t := range r.timers {
		t.Stop()
	}
	synctest.Wait()
}

func (r *delayRunner) Do(op []string) string {
	switch op[0] {
	case "delay":
		id, tc := len(r.timers), r.now()
		t := gogu.Delay(c20ms(atoi(op[1])), func() {
			r.mu.Lock()
			r.log = append(r.log, [3]int{r.now(), id, tc})
			r.mu.Unlock()
		})
		r.timers = append(r.timers, t)
		synctest.Wait()
		return itoa(r.now()) + " " + itoa(id)
	case "stop":
		id := atoi(op[1])
		if id < 0 || id >= len(r.timers) {
			return itoa(r.now()) + " none"
		}
		res := r.timers[id].Stop()
		synctest.Wait()
		return itoa(r.now()) + " " + b2s(res)
	case "fired":
		r.mu.Lock()
		l := append([][3]int{}, r.log...)
		r.mu.Unlock()
		sort.Slice(l, func(i, j int) bool {
			if l[i][0] != l[j][0] {
				return l[i][0] < l[j][0]
			}
			return l[i][1] < l[j][1]
		})
		return itoa(r.now()) + " " + c20triples(l)
	}
	panic("harness: bad op " + op[0])
}

// -- throttle

type c20throttle interface {
	Call()
	Next() bool
	Cancel()
}

type throttleRunner struct {
	c20clock
	th     c20throttle
	dur    int
	mu     sync.Mutex
	done   [][3]int
	nextID int
}

func (r *throttleRunner) Close() {
	// release blocked Next callers and let a pending trailing timer run out
	r.th.Cancel()
	synctest.Wait()
	d := r.dur
	if d < 0 {
		d = 0
	}
	time.Sleep(c20ms(d + 1))
	synctest.Wait()
}

func (r *throttleRunner) Do(op []string) string {
	switch op[0] {
	case "call":
		r.th.Call()
		synctest.Wait()
		return itoa(r.now())
	case "cancel":
		r.th.Cancel()
		synctest.Wait()
		return itoa(r.now())
	case "next":
		id := r.nextID
		r.nextID++
		go func() {
			res := r.th.Next()
			r.mu.Lock()
			x := 0
			if res {
				x = 1
			}
			r.done = append(r.done, [3]int{id, r.now(), x})
			r.mu.Unlock()
		}()
		synctest.Wait()
		r.mu.Lock()
		defer r.mu.Unlock()
		for _, e := range r.done {
			if e[0] == id {
				return itoa(r.now()) + " " + itoa(id) + " " + b2s(e[2] == 1)
			}
		}
		return itoa(r.now()) + " " + itoa(id) + " blocked"
	case "done":
		r.mu.Lock()
		defer r.mu.Unlock()
		return itoa(r.now()) + " " + c20triples(r.done)
	}
	panic("harness: bad op " + op[0])
}

// -- throttle under real parallelism (outside the virtual clock): Cancel racing a Next that is about to block
//
//	CASE throttlerace <T|F trailing>
//	race <n>   => ok | stuck <round> <head start> | true <round> | slow <round>
//
// Next must return false once Cancel has returned.  The verdict `stuck` does not rest on a time-out (a starved
// process would look the same): it is given only when, after Cancel has returned, the goroutine that called Next
// is seen PARKED in sync.Cond.Wait in several consecutive goroutine dumps -- nobody will ever broadcast again, so
// it is blocked for good.  A round that merely takes long is reported as `slow` (no verdict).
type throttleRaceRunner struct{ trailing bool }

// parkedInCondWait reports whether some goroutine is parked in sync.Cond.Wait below the given function.
func parkedInCondWait(fn string) bool {
	buf := make([]byte, 1<<20)
	n := runtime.Stack(buf, true)
	for _, g := range strings.Split(string(buf[:n]), "\n\n") {
		head, _, _ := strings.Cut(g, "\n")
		if strings.Contains(head, "sync.Cond.Wait") && strings.Contains(g, fn) {
			return true
		}
	}
	return false
}

func (r *throttleRaceRunner) Do(op []string) string {
	if op[0] != "race" {
		panic("harness: bad op " + op[0])
	}
	n := atoi(op[1])
	begin := time.Now()
	for i := 0; i < n; i++ {
		if time.Since(begin) > hangLimit/4 { // a starved process: fewer rounds, never a verdict from slowness
			break
		}
		th := gogu.NewThrottle(time.Hour, r.trailing)
		var ready, fire atomic.Bool
		res := make(chan bool, 1)
		go func() {
			ready.Store(true)
			for !fire.Load() {
			}
			res <- th.Next()
		}()
		for !ready.Load() {
			runtime.Gosched()
		}
		fire.Store(true)
		head := i % 257 // head start of Next over Cancel, in spin iterations
		for k := 0; k < head*4; k++ {
			_ = fire.Load()
		}
		th.Cancel()
		parked, decided := 0, false
		for w := 0; w < 200 && !decided; w++ {
			select {
			case v := <-res:
				if v {
					return "true " + itoa(i)
				}
				decided = true
			case <-time.After(25 * time.Millisecond):
				if parkedInCondWait("gogu.(*throttler).Next") {
					parked++
				} else {
					parked = 0
				}
				if parked >= 8 {
					return "stuck " + itoa(i) + " " + itoa(head)
				}
			}
		}
		if !decided {
			return "slow " + itoa(i)
		}
	}
	return "ok"
}

// -- throttle with a LATE trailing timer (outside the virtual clock, one P)
//
//	CASE throttlelate <durationMs>
//	late <n>   => ok | close <round> <gapMicroseconds> | none
//
// The virtual clock fires every timer exactly at its deadline; the Go runtime does not.  Each round arranges, on the
// real clock and with GOMAXPROCS(1), that the callback of the trailing timer runs AFTER a direct grant that was
// possible only because the period had already ended: Call, Next (permission 1), Call inside the period (schedules the
// trailing timer for the end of the period), then the only P is kept busy across the deadline, Call + Next
// (permission 2, a new period begins), and only then the timer's goroutine gets to run.  Whatever the timer does then,
// the next permission must not be handed out within one period of permission 2.  The verdict uses bracketing only:
// b2 = clock reading BEFORE the Next that returned permission 2 was called, e3 = reading AFTER the Next that returned
// permission 3; the stamps `last` of the two permissions lie in between, so e3 - b2 < duration proves two permissions
// inside one period.  A round in which no third permission arrives says nothing; `none` = no round was conclusive.
type throttleLateRunner struct{ dur int }

func (r *throttleLateRunner) Do(op []string) string {
	if op[0] != "late" {
		panic("harness: bad op " + op[0])
	}
	n := atoi(op[1])
	old := runtime.GOMAXPROCS(1)
	defer runtime.GOMAXPROCS(old)
	D := c20ms(r.dur)
	begin := time.Now()
	conclusive := 0
	for i := 0; i < n; i++ {
		if time.Since(begin) > hangLimit/4 {
			break
		}
		th := gogu.NewThrottle(D, true)
		start := time.Now()
		spinUntil := func(d time.Duration) {
			for time.Since(start) < d {
			}
		}
		th.Call()
		if !th.Next() { // permission 1
			return "false " + itoa(i)
		}
		spinUntil(D / 12)
		th.Call() // inside the period: the trailing timer is set for the end of the period
		time.Sleep(D * 3 / 4)
		spinUntil(D + D/40 + time.Millisecond) // the only P stays busy across the deadline: the timer runs late
		th.Call()                              // a direct grant: more than one period since permission 1
		b2 := time.Now()
		if !th.Next() { // permission 2
			return "false " + itoa(i)
		}
		time.Sleep(D / 8) // now the late timer callback runs
		done := make(chan time.Time, 1)
		go func() {
			if th.Next() {
				done <- time.Now()
			}
		}()
		select {
		case e3 := <-done:
			conclusive++
			if gap := e3.Sub(b2); gap < D {
				th.Cancel()
				return "close " + itoa(i) + " " + itoa(int(gap/time.Microsecond))
			}
		case <-time.After(2 * D):
		}
		th.Cancel()
	}
	if conclusive == 0 {
		return "none"
	}
	return "ok"
}

// -- debounce when the goroutine of an expired timer starts LATE (real clock, one P)
//
//	CASE debouncelate <waitMs>
//	latecancel <n> => ok | ran <trial>            the debounced function STARTED after cancel() had returned
//	latecall <n>   => ok | early <trial> <gap us>  the function of the older call started after a newer call had returned,
//	                                               less than `wait` after it
//	gapcancel <n>  => ok | ran-after-go-ahead <trial>   (hook VerifDebounceGap) cancel() completed between the goroutine's
//	gapcall <n>    => ok | ran-after-go-ahead <trial>   go-ahead check and the function / a newer call did (finding F46)
//
// time.AfterFunc does not run f when the timer expires: the runtime starts a goroutine for it, which may be scheduled
// any time later; in that window Timer.Stop returns false and stops nothing.  Each trial makes the window deterministic:
// one P, a second timer (the harness's own) due 1 ms after the debounce timer, and the runner spins past both
// deadlines: when it finally blocks the scheduler expires both timers in one pass and runs the goroutine created LAST
// first -- that one calls cancel() (or debounces again) and completes before f starts.  The verdict needs no clock for
// `latecancel` (an atomic flag set strictly after cancel() returned); for `latecall` see the comment at the callback.
type debounceLateRunner struct{ wait int }

func (r *debounceLateRunner) Do(op []string) string {
	n := atoi(op[1])
	old := runtime.GOMAXPROCS(1)
	defer runtime.GOMAXPROCS(old)
	wait := c20ms(r.wait)
	begin := time.Now()
	for trial := 0; trial < n; trial++ {
		if time.Since(begin) > hangLimit/4 {
			break
		}
		debounce, cancel := gogu.NewDebounce(wait)
		time.Sleep(time.Millisecond) // a fresh time slice: no pre-emption during the spin
		start := time.Now()
		switch op[0] {
		case "latecancel":
			var cancelReturned, ranAfter atomic.Bool
			debounce(func() {
				if cancelReturned.Load() {
					ranAfter.Store(true)
				}
			})
			time.AfterFunc(wait+time.Millisecond, func() {
				cancel()
				cancelReturned.Store(true)
			})
			for time.Since(start) < wait+3*time.Millisecond {
			}
			time.Sleep(6 * wait)
			if ranAfter.Load() {
				return "ran " + itoa(trial)
			}
		case "latecall":
			// sound whatever the scheduling: `now >= rt` (rt read after the newer call returned) shows that the function
			// started after the newer call had returned; the newer call's own function cannot start before
			// rt0 + wait (rt0 read before that call was made), so a start below rt0 + wait is the older function
			var lastBefore, lastReturned, early atomic.Int64
			cb := func() {
				now := int64(time.Since(start))
				if rt := lastReturned.Load(); rt != 0 && now >= rt && time.Duration(now-lastBefore.Load()) < wait {
					early.Store(now - rt + 1)
				}
			}
			debounce(cb)
			time.AfterFunc(wait+time.Millisecond, func() {
				lastBefore.Store(int64(time.Since(start)))
				debounce(cb)
				lastReturned.Store(int64(time.Since(start)))
			})
			for time.Since(start) < wait+3*time.Millisecond {
			}
			time.Sleep(6 * wait)
			cancel()
			if e := early.Load(); e != 0 {
				return "early " + itoa(trial) + " " + itoa(int(time.Duration(e)/time.Microsecond))
			}
		case "gapcancel", "gapcall":
			// deterministic (hook VerifDebounceGap, build tag verif): the goroutine of the expired timer has made its
			// go-ahead check and released the lock; before it runs the function, a cancel() (or a newer call) runs to
			// completion.  No clock in the verdict: `after` is set strictly after cancel()/the call returned.
			var after, ranAfter atomic.Bool
			var fired atomic.Int32
			done := make(chan struct{}, 4)
			hooked := setDebounceGap(func() {
				if fired.Add(1) != 1 {
					return
				}
				if op[0] == "gapcancel" {
					cancel()
				} else {
					debounce(func() { done <- struct{}{} })
				}
				after.Store(true)
			})
			if !hooked {
				return "nohook"
			}
			debounce(func() {
				if after.Load() {
					ranAfter.Store(true)
				}
				done <- struct{}{}
			})
			select {
			case <-done:
			case <-time.After(hangLimit / 8):
			}
			cancel()
			setDebounceGap(nil)
			time.Sleep(2 * wait)
			if ranAfter.Load() {
				return "ran-after-go-ahead " + itoa(trial)
			}
		default:
			panic("harness: bad op " + op[0])
		}
	}
	return "ok"
}

func init() {
	kinds["debouncelate"] = func(p []string) Runner { return &debounceLateRunner{wait: atoi(p[0])} }
	kinds["throttlelate"] = func(p []string) Runner { return &throttleLateRunner{dur: atoi(p[0])} }
	kinds["throttlerace"] = func(p []string) Runner { return &throttleRaceRunner{trailing: s2b(p[0])} }
	for _, k := range []string{"debounce", "delay", "throttle"} {
		timedKinds[k] = true
	}
	kinds["debounce"] = func(p []string) Runner {
		r := &debounceRunner{}
		r.start = time.Now()
		r.call, r.cancel = gogu.NewDebounce(c20ms(atoi(p[0])))
		return r
	}
	kinds["delay"] = func(p []string) Runner {
		r := &delayRunner{}
		r.start = time.Now()
		return r
	}
	kinds["throttle"] = func(p []string) Runner {
		r := &throttleRunner{dur: atoi(p[0])}
		r.start = time.Now()
		r.th = gogu.NewThrottle(c20ms(atoi(p[0])), s2b(p[1]))
		return r
	}
	gens["C20"] = genC20
}

var c20waits = []int{5, 10, 20, 50}

func c20sleep(ms int) string { return "sleep " + itoa(ms) }

func genC20(g *Gen) {
	// bursts issued by several goroutines at one virtual instant (the debouncer's own locking is part of "at most
	// once per burst")
	for _, w := range []int{5, 20} {
		for rep := 0; rep < 6; rep++ {
			if !g.Mine() {
				continue
			}
			g.Emit("debounce", []string{itoa(w)}, []string{"parcall 8 50", "fired", "sleep " + itoa(w-1), "fired", "sleep 1", "fired",
				"sleep " + itoa(w+1), "fired", "parcall 4 100", "cancel", "sleep " + itoa(w+1), "fired", "parcall 8 20", "sleep 1",
				"parcall 8 20", "sleep " + itoa(w), "fired", "sleep 1", "fired"})
		}
	}
	// the property's scope ("every arrangement up to length 6") is covered by the quick tier already
	seqLen := 6
	if g.Thorough() {
		seqLen = 7
	}
	// ---- debounce -------------------------------------------------------------------------------
	obsD := []string{"fired"}
	for _, w := range c20waits {
		// (a) bursts of 1..50 calls; gap shapes below / at / above the wait and mixtures; every
		//     placement of cancel (after the k-th call, before or after the gap); tails that stop
		//     just short of, exactly at and beyond the deadline
		shapes := [][]int{{1}, {w - 1}, {w / 2}, {w}, {w + 1}, {w - 1, w + 1}, {1, w, w - 1}, {w + 1, 1, 1}, {0}, {0, w - 1}}
		maxBurst := 50
		for n := 1; n <= maxBurst; n++ {
			for si, sh := range shapes {
				// quick tier: every burst length with two gap shapes, all shapes for short bursts
				if !g.Thorough() && n > 8 && si != n%len(shapes) && si != (n+3)%len(shapes) {
					continue
				}
				// cancel placements: none (-1), after call k (0..n-1) directly / after the gap
				cps := []int{-1}
				if g.Thorough() || n <= 12 {
					for k := 0; k < n; k++ {
						cps = append(cps, k)
					}
				} else {
					cps = append(cps, 0, n/2, n-1)
				}
				for _, cp := range cps {
					for late := 0; late < 2; late++ {
						if cp < 0 && late == 1 {
							continue
						}
						if !g.Mine() {
							continue
						}
						var muts []string
						for i := 0; i < n; i++ {
							muts = append(muts, "call")
							gap := sh[i%len(sh)]
							if cp == i && late == 0 {
								muts = append(muts, "cancel")
							}
							if i < n-1 {
								muts = append(muts, c20sleep(gap))
							}
							if cp == i && late == 1 {
								if i == n-1 {
									muts = append(muts, c20sleep(gap))
								}
								muts = append(muts, "cancel")
							}
						}
						muts = append(muts, c20sleep(w-1), c20sleep(1), c20sleep(1), c20sleep(w))
						g.Emit("debounce", []string{itoa(w)}, interleave(muts, obsD))
					}
				}
			}
		}
		// (b) all arrangements of call / cancel / sleep(short, 1, long)
		alpha := []string{"call", "cancel", c20sleep(w - 1), c20sleep(1), c20sleep(w + 1)}
		seqsUpTo(alpha, seqLen, func(s []string) {
			if !g.Mine() {
				return
			}
			muts := append(append([]string{}, s...), c20sleep(w))
			g.Emit("debounce", []string{itoa(w)}, interleave(muts, obsD))
			// the same arrangement with a debounced function that is still running when later calls / cancels arrive
			if w >= 4 && g.idx%3 == 0 {
				for _, sl := range []int{w / 2, w + 2} {
					muts := append(append([]string{"slow " + itoa(sl)}, s...), c20sleep(w), c20sleep(w+3))
					g.Emit("debounce", []string{itoa(w)}, interleave(muts, obsD))
				}
			}
		})
	}
	// (c) seeded random debounce runs, including wait 0 and 1
	rng := g.Rng("c20-debounce")
	nr := 150
	if g.Thorough() {
		nr = 3000
	}
	for i := 0; i < nr; i++ {
		w := []int{0, 1, 2, 5, 10, 20, 50}[rng.Intn(7)]
		n := rng.Range(1, 60)
		var muts []string
		for j := 0; j < n; j++ {
			switch x := rng.Intn(10); {
			case x < 5:
				muts = append(muts, "call")
			case x < 6:
				muts = append(muts, "cancel")
			default:
				muts = append(muts, c20sleep([]int{0, 1, w / 2, w - 1, w, w + 1, 2 * w}[rng.Intn(7)]))
			}
		}
		for k := range muts {
			if muts[k] == "sleep -1" {
				muts[k] = "sleep 0"
			}
		}
		muts = append(muts, c20sleep(w))
		if w >= 2 && rng.Intn(3) == 0 {
			muts = append([]string{"slow " + itoa([]int{1, w / 2, w - 1, w, w + 1}[rng.Intn(5)])}, append(muts, c20sleep(2*w+2))...)
		}
		g.Emit("debounce", []string{itoa(w)}, interleave(muts, obsD))
	}
	// ---- delay ----------------------------------------------------------------------------------
	{
		alpha := []string{"delay 5", "delay 10", "stop 0", "stop 1", c20sleep(4), c20sleep(6)}
		seqsUpTo(alpha, 5, func(s []string) {
			if !g.Mine() {
				return
			}
			muts := append(append([]string{}, s...), c20sleep(10))
			g.Emit("delay", nil, interleave(muts, obsD))
		})
		rng := g.Rng("c20-delay")
		nd := 100
		if g.Thorough() {
			nd = 2000
		}
		for i := 0; i < nd; i++ {
			n := rng.Range(1, 40)
			made := 0
			var muts []string
			for j := 0; j < n; j++ {
				switch x := rng.Intn(10); {
				case x < 4:
					muts = append(muts, "delay "+itoa([]int{-3, 0, 1, 5, 10, 20, 50}[rng.Intn(7)]))
					made++
				case x < 6:
					muts = append(muts, "stop "+itoa(rng.Intn(made+1)))
				default:
					muts = append(muts, c20sleep([]int{0, 1, 4, 5, 9, 10, 19, 21, 50}[rng.Intn(9)]))
				}
			}
			muts = append(muts, c20sleep(50))
			g.Emit("delay", nil, interleave(muts, obsD))
		}
	}
	// ---- throttle: Cancel racing Next on real threads ---------------------------------------------
	for _, tr := range []string{"T", "F"} {
		if g.Mine() {
			lines := 2
			if g.Thorough() {
				lines = 16
			}
			var ops []string
			for k := 0; k < lines; k++ {
				ops = append(ops, "race 2000")
			}
			g.Emit("throttlerace", []string{tr}, ops)
		}
	}
	// ---- debounce: the goroutine of an expired timer starts late (real clock, one P) -----------------
	for _, w := range []int{5, 8} {
		if g.Mine() {
			rounds := "4"
			if g.Thorough() {
				rounds = "25"
			}
			g.Emit("debouncelate", []string{itoa(w)}, []string{"latecancel " + rounds, "latecall " + rounds, "gapcancel 2", "gapcall 2"})
		}
	}
	// ---- throttle: a trailing timer that runs late (real clock, one P) -------------------------------
	for _, d := range []int{40, 24} {
		if g.Mine() {
			rounds := "6"
			if g.Thorough() {
				rounds = "40"
			}
			g.Emit("throttlelate", []string{itoa(d)}, []string{"late " + rounds})
		}
	}
	// ---- throttle -------------------------------------------------------------------------------
	obsT := []string{"done"}
	for _, d := range c20waits {
		for _, tr := range []string{"F", "T"} {
			// all arrangements of call / next / cancel / sleep(short, long) — two sleep vocabularies so
			// that the period boundary is hit exactly (1, d) and missed on both sides (d-1, d+1).
			// Arrangements in which a second Next starts while one is blocked are included; they are
			// judged by the monitor only.
			for vi, sl := range [][2]int{{1, d}, {d - 1, d + 1}} {
				if !g.Thorough() && vi == 1 && d != 5 && d != 50 {
					continue
				}
				alpha := []string{"call", "next", "cancel", c20sleep(sl[0]), c20sleep(sl[1])}
				seqsUpTo(alpha, seqLen, func(s []string) {
					if !g.Mine() {
						return
					}
					muts := append(append([]string{}, s...), c20sleep(d), c20sleep(1))
					g.Emit("throttle", []string{itoa(d), tr}, interleave(muts, obsT))
				})
			}
		}
	}
	// seeded runs: single consumer (exact comparison) and several concurrent consumers (monitor)
	rngT := g.Rng("c20-throttle")
	nt := 300
	if g.Thorough() {
		nt = 6000
	}
	for i := 0; i < nt; i++ {
		d := []int{0, 1, 5, 10, 20, 50}[rngT.Intn(6)]
		tr := b2s(rngT.Intn(2) == 0)
		n := rngT.Range(4, 40)
		nextW := rngT.Range(1, 5) // weight of `next`: 1 = mostly one consumer, 5 = many blocked consumers
		withCancel := rngT.Intn(3) == 0
		var muts []string
		for j := 0; j < n; j++ {
			switch x := rngT.Intn(12); {
			case x < 4:
				muts = append(muts, "call")
			case x < 4+nextW:
				muts = append(muts, "next")
			case x == 11 && withCancel:
				muts = append(muts, "cancel")
			default:
				s := []int{0, 1, d / 2, d - 1, d, d + 1, 2 * d}[rngT.Intn(7)]
				if s < 0 {
					s = 0
				}
				muts = append(muts, c20sleep(s))
			}
		}
		muts = append(muts, c20sleep(d), c20sleep(1), "cancel")
		g.Emit("throttle", []string{itoa(d), tr}, interleave(muts, obsT))
	}
}
