package main

import (
	"strings"

	"github.com/esimov/gogu/list"
)

// ---- C19: linked lists -------------------------------------------------------------------------------
//
// Every mutation reports its own result and the sequence observed by Each afterwards, so that the
// (relational) sequence specification can be checked step by step.  Node handles are obtained from
// Find immediately before use; when Find does not find the value the edit is not attempted.

type slistRunner struct {
	l     *list.SList[int]
	slots map[int]*list.SingleNode[int] // kept handles (`hold k x`)
}

// long runs (protocol: `fill a n`, `q <op> …`, `sum`, `window i j`): the sequence is not printed after every step
var listQuiet bool

const listWalkLimit = 3000000 // Each on a list that has become cyclic never ends: give up (reported as hang)

// listLong implements the long-run operations over the list's own Each / Unshift; ok=false: not a long-run op.
func listLong(op []string, unshift func(int), each func(func(int)), do func([]string) string) (string, bool) {
	switch op[0] {
	case "fill":
		a, n := atoi(op[1]), atoi(op[2])
		for i := 0; i < n; i++ {
			unshift(a + i)
		}
		return "ok", true
	case "q":
		listQuiet = true
		defer func() { listQuiet = false }()
		return strings.TrimSpace(do(op[1:])), true
	case "sum":
		n, first, last, sum, w := 0, 0, 0, 0, 1
		each(func(v int) {
			if n == 0 {
				first = v
			}
			last = v
			sum = (sum + w*v) % 1000000007
			if sum < 0 { // Lean's % on Int is non-negative for a positive modulus
				sum += 1000000007
			}
			w++
			n++
			if n > listWalkLimit {
				panic(hangSignal{})
			}
		})
		return itoa(n) + " " + itoa(first) + " " + itoa(last) + " " + itoa(sum), true
	case "window":
		i, j := atoi(op[1]), atoi(op[2])
		var out []int
		pos := 0
		each(func(v int) {
			if pos >= i && pos < j {
				out = append(out, v)
			}
			pos++
			if pos > listWalkLimit {
				panic(hangSignal{})
			}
		})
		return ints(out), true
	}
	return "", false
}

func eachS(l *list.SList[int]) string {
	if listQuiet {
		return ""
	}
	var out []int
	l.Each(func(v int) {
		out = append(out, v)
		if len(out) > 5000 {
			panic(hangSignal{})
		}
	})
	return ints(out)
}

func (r *slistRunner) Do(op []string) string {
	l := r.l
	if res, ok := listLong(op, l.Unshift, l.Each, r.Do); ok {
		return res
	}
	switch op[0] {
	case "unshift":
		l.Unshift(atoi(op[1]))
		return "ok " + eachS(l)
	case "append":
		l.Append(atoi(op[1]))
		return "ok " + eachS(l)
	case "shift":
		l.Shift()
		return "ok " + eachS(l)
	case "pop":
		l.Pop()
		return "ok " + eachS(l)
	case "insertafter":
		n, ok := l.Find(atoi(op[1]))
		if !ok {
			return "notfound " + eachS(l)
		}
		return errs(l.InsertAfter(n, atoi(op[2]))) + " " + eachS(l)
	case "delete":
		n, ok := l.Find(atoi(op[1]))
		if !ok {
			return "notfound " + eachS(l)
		}
		return errs(l.Delete(n)) + " " + eachS(l)
	case "replace":
		return errs(l.Replace(atoi(op[1]), atoi(op[2]))) + " " + eachS(l)
	case "find":
		_, ok := l.Find(atoi(op[1]))
		return b2s(ok) + " " + eachS(l)
	case "each":
		return eachS(l)
	case "eachobs":
		// Each with a callback that itself observes the list: Find of the first element at every visit
		first, okAll := -1, true
		l.Each(func(v int) {
			if first == -1 {
				first = v
			}
			if _, ok := l.Find(first); !ok {
				okAll = false
			}
		})
		return b2s(okAll) + " " + eachS(l)
	case "eachpanic":
		// Each with a callback that panics at the k-th visit (the caller recovers): the list must be what it was
		k, visits := atoi(op[1]), 0
		func() {
			defer func() { recover() }()
			l.Each(func(int) {
				visits++
				if visits == k {
					panic("callback failed")
				}
			})
		}()
		return eachS(l)
	case "hold": // keep the handle Find gives for a value; it is used by later deleteh / insertafterh lines
		n, ok := l.Find(atoi(op[2]))
		if r.slots == nil {
			r.slots = map[int]*list.SingleNode[int]{}
		}
		r.slots[atoi(op[1])] = n
		return b2s(ok) + " " + eachS(l)
	case "deleteh":
		return errs(l.Delete(r.slots[atoi(op[1])])) + " " + eachS(l)
	case "insertafterh":
		return errs(l.InsertAfter(r.slots[atoi(op[1])], atoi(op[2]))) + " " + eachS(l)
	}
	panic("harness: bad op " + op[0])
}

type dlistRunner struct {
	l     *list.DList[int]
	slots map[int]*list.DoubleNode[int]
}

func eachD(l *list.DList[int]) string {
	if listQuiet {
		return ""
	}
	var out []int
	l.Each(func(v int) {
		out = append(out, v)
		if len(out) > 5000 {
			panic(hangSignal{})
		}
	})
	return ints(out)
}

func (r *dlistRunner) Do(op []string) string {
	l := r.l
	if res, ok := listLong(op, l.Unshift, l.Each, r.Do); ok {
		return res
	}
	switch op[0] {
	case "unshift":
		l.Unshift(atoi(op[1]))
		return "ok " + eachD(l)
	case "append":
		l.Append(atoi(op[1]))
		return "ok " + eachD(l)
	case "shift":
		n := l.Shift()
		return itoa(l.Val(n)) + " " + eachD(l)
	case "pop":
		l.Pop()
		return "ok " + eachD(l)
	case "insertafter":
		n, ok := l.Find(atoi(op[1]))
		if !ok {
			return "notfound " + eachD(l)
		}
		return errs(l.InsertAfter(n, atoi(op[2]))) + " " + eachD(l)
	case "insertbefore":
		n, ok := l.Find(atoi(op[1]))
		if !ok {
			return "notfound " + eachD(l)
		}
		return errs(l.InsertBefore(n, atoi(op[2]))) + " " + eachD(l)
	case "delete":
		n, ok := l.Find(atoi(op[1]))
		if !ok {
			return "notfound " + eachD(l)
		}
		return errs(l.Delete(n)) + " " + eachD(l)
	case "replace":
		return errs(l.Replace(atoi(op[1]), atoi(op[2]))) + " " + eachD(l)
	case "find":
		_, ok := l.Find(atoi(op[1]))
		return b2s(ok) + " " + eachD(l)
	case "first":
		return itoa(l.First()) + " " + eachD(l)
	case "last":
		return itoa(l.Last()) + " " + eachD(l)
	case "each":
		return eachD(l)
	case "dump":
		return dlistDump(l)
	case "eachobs":
		first, okAll := -1, true
		l.Each(func(v int) {
			if first == -1 {
				first = v
			}
			if _, ok := l.Find(first); !ok || l.First() != first {
				okAll = false
			}
		})
		return b2s(okAll) + " " + eachD(l)
	case "eachpanic":
		k, visits := atoi(op[1]), 0
		func() {
			defer func() { recover() }()
			l.Each(func(int) {
				visits++
				if visits == k {
					panic("callback failed")
				}
			})
		}()
		return eachD(l)
	case "hold":
		n, ok := l.Find(atoi(op[2]))
		if r.slots == nil {
			r.slots = map[int]*list.DoubleNode[int]{}
		}
		r.slots[atoi(op[1])] = n
		return b2s(ok) + " " + eachD(l)
	case "deleteh":
		return errs(l.Delete(r.slots[atoi(op[1])])) + " " + eachD(l)
	case "insertafterh":
		return errs(l.InsertAfter(r.slots[atoi(op[1])], atoi(op[2]))) + " " + eachD(l)
	case "insertbeforeh":
		return errs(l.InsertBefore(r.slots[atoi(op[1])], atoi(op[2]))) + " " + eachD(l)
	}
	panic("harness: bad op " + op[0])
}

func init() {
	kinds["slist"] = func(p []string) Runner { return &slistRunner{l: list.Init(atoi(p[0]))} }
	kinds["dlist"] = func(p []string) Runner { return &dlistRunner{l: list.InitDList(atoi(p[0]))} }
	gens["C19"] = genC19
}

// genC19: position-parameterised edits.  The generator tracks the *specified* sequence so that
// positions can be turned into the value found at that position; inserted values are fresh.
func genC19(g *Gen) {
	// Replace with old == new: present and absent values (the absence must still be reported)
	for _, kind := range []string{"slist", "dlist"} {
		if g.Mine() {
			ops := []string{"append 2", "append 3", "replace 9 9", "each", "replace 2 2", "each", "replace 1 1",
				"replace 3 3", "replace 0 0", "find 9"}
			if kind == "dlist" {
				ops = append(ops, "first", "last")
			}
			g.Emit(kind, []string{"1"}, ops)
		}
	}
	// kept handles: every list of 2..4 values over {1,2,3} (duplicates), the handle of each value whose first
	// occurrence is not the first element, one edit in between (an earlier duplicate pushed in front, removals
	// before and behind, …), then every operation through the kept handle
	for _, kind := range []string{"slist", "dlist"} {
		hops := []string{"deleteh 0", "insertafterh 0 7"}
		if kind == "dlist" {
			hops = append(hops, "insertbeforeh 0 7")
		}
		for first := 1; first <= 2; first++ {
			for n := 1; n <= 3; n++ {
				tot := 1
				for i := 0; i < n; i++ {
					tot *= 3
				}
				for code := 0; code < tot; code++ {
					if !g.Mine() {
						continue
					}
					seq := []int{first}
					var build []string
					for i, c := 0, code; i < n; i, c = i+1, c/3 {
						seq = append(seq, c%3+1)
						build = append(build, "append "+itoa(c%3+1))
					}
					for x := 1; x <= 3; x++ {
						if k := firstIndex(seq, x); k < 1 {
							continue
						}
						edits := [][]string{{}, {"unshift " + itoa(x)}, {"unshift 9"}, {"append " + itoa(x)}, {"shift"}, {"pop"},
							{"delete " + itoa(first)}, {"insertafter " + itoa(first) + " 9"}, {"delete 3"}, {"replace " + itoa(first) + " " + itoa(x)},
							{"unshift " + itoa(x), "unshift " + itoa(x)}, {"unshift " + itoa(x), "pop"}, {"insertafter " + itoa(x) + " " + itoa(x)}}
						for _, e := range edits {
							for _, h := range hops {
								ops := append(append(append([]string{}, build...), "hold 0 "+itoa(x)), e...)
								ops = append(ops, h, "each")
								if kind == "dlist" {
									ops = append(ops, "dump")
								}
								g.Emit(kind, []string{itoa(first)}, ops)
							}
						}
					}
				}
			}
		}
	}
	// long lists: standard lengths and lengths around thresholds a change introduced into the source (walk limits)
	longs := []int{700, 5003}
	if g.Thorough() {
		longs = append(longs, 20011)
	}
	for _, s := range extraSizes() {
		if s <= 300000 {
			longs = append(longs, s-1, s, s+1, 2*s+1)
		}
	}
	for _, n := range longs {
		for _, kind := range []string{"slist", "dlist"} {
			if !g.Mine() {
				continue
			}
			// the list starts as [1]; fill pushes 10, 11, … to the front: front = 10+n-1, …, 10, then 1 (the back)
			top := 10 + n - 1
			ops := []string{"fill 10 " + itoa(n), "sum", "window 0 30", "window " + itoa(n-25) + " " + itoa(n+1),
				"q find 1", "q find 10", "q find " + itoa(top), "q find -7"}
			if kind == "dlist" {
				ops = append(ops, "q first", "q last")
			}
			ops = append(ops, "q append 5", "sum", "window "+itoa(n-3)+" "+itoa(n+2),
				"q pop", "sum", "q pop", "sum", "q append 6", "q insertafter 10 7", "sum", "window "+itoa(n-5)+" "+itoa(n+3),
				"q delete 7", "q delete 6", "q delete 11", "sum", "q replace 12 -12", "q replace 1 -1", "q find -12", "sum",
				"q delete "+itoa(top), "q unshift 3", "q shift", "sum", "window 0 5")
			if kind == "dlist" {
				ops = append(ops, "q insertbefore -12 8", "q insertbefore "+itoa(top-1)+" 9", "sum", "q last", "q first")
			}
			ops = append(ops, "window "+itoa(n-30)+" "+itoa(n+2), "sum")
			g.Emit(kind, []string{"1"}, ops)
		}
	}
	type edit struct {
		name string
		pos  int // -1: no position
	}
	maxLen := 4
	maxPos := 3
	if g.Thorough() {
		maxLen = 5
		maxPos = 4
	}
	for _, kind := range []string{"slist", "dlist"} {
		var edits []edit
		for _, n := range []string{"unshift", "append", "shift", "pop"} {
			edits = append(edits, edit{n, -1})
		}
		names := []string{"insertafter", "delete", "replace"}
		if kind == "dlist" {
			names = append(names, "insertbefore")
		}
		for _, n := range names {
			for p := 0; p <= maxPos; p++ {
				edits = append(edits, edit{n, p})
			}
		}
		// absent-value probes
		edits = append(edits, edit{"delete", 99}, edit{"replace", 99}, edit{"insertafter", 99})
		cur := make([]edit, 0, maxLen)
		var rec func()
		rec = func() {
			if g.Mine() {
				seq := []int{1}
				next := 2
				var ops []string
				valid := true
				for _, e := range cur {
					x := 77 // absent value
					if e.pos >= 0 && e.pos < 90 {
						if e.pos >= len(seq) {
							valid = false
							break
						}
						x = seq[e.pos]
					}
					switch e.name {
					case "unshift":
						ops = append(ops, "unshift "+itoa(next))
						seq = append([]int{next}, seq...)
						next++
					case "append":
						ops = append(ops, "append "+itoa(next))
						seq = append(seq, next)
						next++
					case "shift":
						ops = append(ops, "shift")
						if len(seq) > 1 {
							seq = seq[1:]
						} else if kind == "dlist" {
							seq = []int{0} // DList resets the only value to the zero value
						}
					case "pop":
						ops = append(ops, "pop")
						if len(seq) > 1 {
							seq = seq[:len(seq)-1]
						}
					case "insertafter", "insertbefore":
						ops = append(ops, e.name+" "+itoa(x)+" "+itoa(next))
						if i := firstIndex(seq, x); i >= 0 {
							if e.name == "insertafter" {
								i++
							}
							seq = append(seq[:i], append([]int{next}, seq[i:]...)...)
						}
						next++
					case "delete":
						ops = append(ops, "delete "+itoa(x))
						if i := firstIndex(seq, x); i >= 0 && len(seq) > 1 {
							seq = append(append([]int{}, seq[:i]...), seq[i+1:]...)
						}
					case "replace":
						ops = append(ops, "replace "+itoa(x)+" "+itoa(next))
						if i := firstIndex(seq, x); i >= 0 {
							seq = append([]int{}, seq...)
							seq[i] = next
						}
						next++
					}
					ops = append(ops, "find "+itoa(x), "each")
					if kind == "dlist" {
						ops = append(ops, "first", "last", "dump")
					}
				}
				if valid {
					g.Emit(kind, []string{"1"}, ops)
				}
			}
			if len(cur) == maxLen {
				return
			}
			for _, e := range edits {
				cur = append(cur, e)
				rec()
				cur = cur[:len(cur)-1]
			}
		}
		rec()
	}
	// nil handles (what Find returns for an absent value) and Each callbacks that observe the list or panic
	for _, kind := range []string{"slist", "dlist"} {
		for _, pre := range [][]string{{}, {"append 2"}, {"append 2", "append 3", "unshift 4"}} {
			if !g.Mine() {
				continue
			}
			ops := append([]string{}, pre...)
			ops = append(ops, "hold 0 77", "insertafterh 0 50", "each")
			if kind == "dlist" {
				ops = append(ops, "insertbeforeh 0 51", "each", "dump")
			}
			ops = append(ops, "deleteh 0", "each", "append 8", "deleteh 0", "each")
			g.Emit(kind, []string{"1"}, ops)
			ops = append([]string{}, pre...)
			ops = append(ops, "eachobs", "eachpanic 1", "each", "eachpanic 2", "each", "eachpanic 3", "eachobs", "append 9", "eachpanic 2", "each", "find 9")
			g.Emit(kind, []string{"1"}, ops)
		}
	}
	// seeded random long edit sequences
	n := 400
	if g.Thorough() {
		n = 8000
	}
	r := g.Rng("C19")
	for i := 0; i < n; i++ {
		kind := []string{"slist", "dlist"}[i%2]
		seq := []int{1}
		next := 2
		var ops []string
		length := r.Range(5, 80)
		for j := 0; j < length; j++ {
			x := 999
			if r.Intn(12) != 0 {
				x = seq[r.Intn(len(seq))]
			}
			p := r.Intn(100)
			switch {
			case p < 12:
				ops = append(ops, "unshift "+itoa(next))
				seq = append([]int{next}, seq...)
				next++
			case p < 24:
				ops = append(ops, "append "+itoa(next))
				seq = append(seq, next)
				next++
			case p < 32:
				ops = append(ops, "shift")
				if len(seq) > 1 {
					seq = seq[1:]
				} else if kind == "dlist" {
					seq = []int{0}
				}
			case p < 40:
				ops = append(ops, "pop")
				if len(seq) > 1 {
					seq = seq[:len(seq)-1]
				}
			case p < 55:
				ops = append(ops, "insertafter "+itoa(x)+" "+itoa(next))
				if k := firstIndex(seq, x); k >= 0 {
					seq = append(seq[:k+1], append([]int{next}, seq[k+1:]...)...)
				}
				next++
			case p < 70 && kind == "dlist":
				ops = append(ops, "insertbefore "+itoa(x)+" "+itoa(next))
				if k := firstIndex(seq, x); k >= 0 {
					seq = append(seq[:k], append([]int{next}, seq[k:]...)...)
				}
				next++
			case p < 85:
				ops = append(ops, "delete "+itoa(x))
				if k := firstIndex(seq, x); k >= 0 && len(seq) > 1 {
					seq = append(append([]int{}, seq[:k]...), seq[k+1:]...)
				}
			case p < 93:
				ops = append(ops, "replace "+itoa(x)+" "+itoa(next))
				if k := firstIndex(seq, x); k >= 0 {
					seq = append([]int{}, seq...)
					seq[k] = next
				}
				next++
			default:
				ops = append(ops, "find "+itoa(x))
			}
			if r.Intn(3) == 0 {
				ops = append(ops, "each")
				if kind == "dlist" {
					ops = append(ops, "first", "last", "dump")
				}
			}
		}
		ops = append(ops, "each")
		g.Emit(kind, []string{"1"}, ops)
	}
}
