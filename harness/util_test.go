package main

import (
	"encoding/hex"
	"fmt"
	"os"
	"sort"
	"strconv"
	"strings"
)

// SplitMix is the single PRNG every random choice derives from.
type SplitMix struct{ s uint64 }

func NewSplitMix(seed uint64) *SplitMix { return &SplitMix{seed} }

func (r *SplitMix) Next() uint64 {
	r.s += 0x9E3779B97F4A7C15
	z := r.s
	z = (z ^ (z >> 30)) * 0xBF58476D1CE4E5B9
	z = (z ^ (z >> 27)) * 0x94D049BB133111EB
	return z ^ (z >> 31)
}

// Intn returns a value in [0,n).
func (r *SplitMix) Intn(n int) int {
	if n <= 0 {
		return 0
	}
	return int(r.Next() % uint64(n))
}

// Range returns a value in [lo,hi].
func (r *SplitMix) Range(lo, hi int) int { return lo + r.Intn(hi-lo+1) }

func atoi(s string) int {
	n, err := strconv.Atoi(s)
	if err != nil {
		panic(fmt.Sprintf("harness: bad int %q", s))
	}
	return n
}

func itoa(n int) string { return strconv.Itoa(n) }

func b2s(b bool) string {
	if b {
		return "T"
	}
	return "F"
}

func s2b(s string) bool { return s == "T" }

func errs(err error) string {
	if err != nil {
		return "err"
	}
	return "ok"
}

// ints renders a slice as a protocol list.
func ints(a []int) string {
	var sb strings.Builder
	sb.WriteByte('[')
	for i, x := range a {
		if i > 0 {
			sb.WriteByte(',')
		}
		sb.WriteString(strconv.Itoa(x))
	}
	sb.WriteByte(']')
	return sb.String()
}

func sortedInts(a []int) []int {
	b := append([]int{}, a...)
	sort.Ints(b)
	return b
}

// parseInts parses a protocol list of ints.
func parseInts(s string) []int {
	s = strings.TrimPrefix(s, "[")
	s = strings.TrimSuffix(s, "]")
	if s == "" {
		return []int{}
	}
	parts := strings.Split(s, ",")
	out := make([]int, len(parts))
	for i, p := range parts {
		out[i] = atoi(p)
	}
	return out
}

// splitTop splits the inside of a bracketed list at top-level commas.
func splitTop(s string) []string {
	var out []string
	depth, start := 0, 0
	for i := 0; i < len(s); i++ {
		switch s[i] {
		case '[':
			depth++
		case ']':
			depth--
		case ',':
			if depth == 0 {
				out = append(out, s[start:i])
				start = i + 1
			}
		}
	}
	if len(s) > 0 {
		out = append(out, s[start:])
	}
	return out
}

// parseList returns the top-level elements of a protocol list.
func parseList(s string) []string {
	if len(s) < 2 || s[0] != '[' {
		panic(fmt.Sprintf("harness: bad list %q", s))
	}
	return splitTop(s[1 : len(s)-1])
}

func plist(items []string) string { return "[" + strings.Join(items, ",") + "]" }

// hx renders a byte string as protocol hex atom.
func hx(s string) string { return "x" + hex.EncodeToString([]byte(s)) }

func unhx(s string) string {
	b, err := hex.DecodeString(strings.TrimPrefix(s, "x"))
	if err != nil {
		panic(fmt.Sprintf("harness: bad hex %q", s))
	}
	return string(b)
}

// seqs enumerates all sequences over alphabet of length exactly n (callback gets a reused slice).
func seqs(alphabet []string, n int, f func([]string)) {
	cur := make([]string, n)
	var rec func(i int)
	rec = func(i int) {
		if i == n {
			f(cur)
			return
		}
		for _, a := range alphabet {
			cur[i] = a
			rec(i + 1)
		}
	}
	rec(0)
}

// seqsUpTo enumerates all sequences of length 0..n.
func seqsUpTo(alphabet []string, n int, f func([]string)) {
	for l := 0; l <= n; l++ {
		seqs(alphabet, l, f)
	}
}

// interleave puts the observer ops after every mutation.
func interleave(muts []string, obs []string) []string {
	out := make([]string, 0, len(muts)*(1+len(obs))+len(obs))
	out = append(out, obs...)
	for _, m := range muts {
		out = append(out, m)
		out = append(out, obs...)
	}
	return out
}

// extraSizes: thresholds handed over by bin/check (VERIF_SIZES): integer constants that a change introduced
// into the source under test.  They only steer generator sizes.
func extraSizes() []int {
	var out []int
	for _, f := range strings.Split(os.Getenv("VERIF_SIZES"), ",") {
		if n, err := strconv.Atoi(strings.TrimSpace(f)); err == nil && n >= 8 && n <= 300000 {
			out = append(out, n)
		}
	}
	return out
}

// sparse reports whether the extra observers run after step i of a run of n steps: always for small runs, for
// large ones only near powers of two, near the extra sizes, near quarter/half/three-quarter marks and every n/64.
func sparse(i, level, n int) bool {
	if n <= 3000 {
		return true
	}
	if i%(n/64+1) == 0 {
		return true
	}
	near := func(x int) bool { return level >= x-2 && level <= x+2 }
	for p := 64; p <= 2*n; p *= 2 {
		if near(p) || near(p/4*3) || near(p+p/4) {
			return true
		}
	}
	for _, s := range extraSizes() {
		if near(s) || near(s/2) || near(s/4) || near(2*s) {
			return true
		}
	}
	return false
}

// bulkOps builds a fill / partial drain (down to `keep` elements) / small refill / full drain run that crosses the
// usual capacity thresholds of slice- and array-backed containers; the observers run after every operation for
// small runs and sparsely (see sparse) for large ones; every push/pop result is always checked.
func bulkOps(push func(i int) string, pop string, obs []string, n int) []string {
	return bulkPlan(push, pop, obs, n, n-n/4+1, 5)
}

// bulkPlan: push n, pop d, push refill, pop everything.
func bulkPlan(push func(i int) string, pop string, obs []string, n, d, refill int) []string {
	var ops []string
	level, step, total := 0, 0, n+d+refill+(n-d+refill)+8
	add := func(op string, delta int) {
		ops = append(ops, op)
		level += delta
		if level < 0 {
			level = 0
		}
		step++
		if sparse(step, level, total) {
			ops = append(ops, obs...)
		}
	}
	for i := 0; i < n; i++ {
		add(push(i), 1)
	}
	for i := 0; i < d; i++ {
		add(pop, -1)
	}
	for i := 0; i < refill; i++ {
		add(push(n+i), 1)
	}
	for i := 0; i < n-d+refill+8; i++ {
		add(pop, -1)
	}
	return ops
}

// bulkPlans lists (n, d, refill) plans: the standard sizes, and for every extra size s runs that hold more than
// s, 2s and 4s elements, drain by more than s / to a quarter, and refill across the next capacity steps.
func bulkPlans(thorough bool) [][3]int {
	var out [][3]int
	for _, n := range bulkSizes(thorough) {
		out = append(out, [3]int{n, n - n/4 + 1, 5})
	}
	for _, s := range extraSizes() {
		for _, n := range []int{s + 2, 2*s + 3, 4*s + 5} {
			// the Lean models are list based (quadratic in the run length): keep the big runs affordable
			if n > 40000 || (n > 20000 && n != s+2) {
				continue
			}
			out = append(out, [3]int{n, n - n/4 + 1, 5}, [3]int{n, s + 404, n}, [3]int{n, n/2 - 3, n / 2})
		}
	}
	return out
}

// bulkSizes are the fill levels of the standard bulk runs (just above the power-of-two growth steps).
func bulkSizes(thorough bool) []int {
	if thorough {
		return []int{33, 65, 129, 130, 257, 300, 513, 1025, 2049, 4100}
	}
	return []int{65, 129, 257, 300, 1025}
}

// longLens: lengths of the "long input" stream of the pure-helper generators: standard ones and lengths that
// straddle the thresholds a change introduced into the source (VERIF_SIZES).
func longLens(thorough bool) []int {
	out := []int{70, 300, 1100}
	if thorough {
		out = append(out, 4200)
	}
	for _, s := range extraSizes() {
		if s <= 20000 {
			out = append(out, s-1, s, s+1, 2*s+1)
		}
	}
	return out
}

// encAny / decAny: an injective coding of ints as values of type any in which neighbours print alike: 2k becomes the
// string "2k+1", 2k+1 stays the int 2k+1 (equal under fmt, different under ==).
func encAny(v int) any {
	if v&1 == 0 {
		return strconv.Itoa(v + 1)
	}
	return v
}

func decAny(x any) int {
	switch t := x.(type) {
	case int:
		return t
	case string:
		n, err := strconv.Atoi(t)
		if err != nil {
			panic("harness: bad any-coded value " + t)
		}
		return n - 1
	}
	panic("harness: bad any-coded value")
}

// skewLens: how often the dominant value of a skewed long input occurs: around the widths of narrow counters and
// around the thresholds a change introduced into the source (VERIF_SIZES).
func skewLens(thorough bool) []int {
	out := []int{255, 256, 257, 513}
	if thorough {
		out = append(out, 4097)
	}
	for _, s := range extraSizes() {
		if s <= 70000 {
			out = append(out, s-1, s, s+1, 2*s+1)
		}
	}
	return out
}

// skewSlice: the value 3 occurs exactly c times; every 97th position holds one of a few other values.
func skewSlice(c, salt int) []int {
	a := make([]int, 0, c+c/90+2)
	for i, k := 0, 0; k < c; i++ {
		if i%97 == 96 {
			a = append(a, []int{-4, 0, 8, 0, 15}[(i/97+salt)%5])
			continue
		}
		a = append(a, 3)
		k++
	}
	return a
}

// longSlice: n values with duplicates, zeros and negative numbers in a non-periodic pattern.
func longSlice(n, salt int) []int {
	a := make([]int, n)
	for i := range a {
		a[i] = (i*i+salt*7+i/3)%23 - 5
	}
	return a
}
