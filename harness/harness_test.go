// Command harness drives the real esimov/gogu code (in-process) for the correspondence checks.
//
//	harness gen <group> [-tier quick|thorough] [-seed N] [-shard i] [-of n]   generated cases -> stdout
//	harness replay                                                          cases on stdin re-executed -> stdout
//
// Output is the line protocol read by the Lean driver:
//
//	CASE <kind> <params...>
//	<op> <args...> => <implementation result...>
//	END
package main

import (
	"bufio"
	"flag"
	"fmt"
	"os"
	"strings"
	"testing"
	"testing/synctest"
	"time"
)

// Runner executes protocol operations against one instance of real gogu code.
type Runner interface {
	// Do executes one operation (already split into tokens) and renders the observable result.
	Do(op []string) string
}

// kinds maps a case kind to a constructor taking the CASE parameters.
var kinds = map[string]func(params []string) Runner{}

// timedKinds are executed inside a testing/synctest bubble (virtual clock): the whole case runs in
// the bubble's root goroutine; "sleep <ms>" advances the virtual clock.  A Closer is closed at the
// end of the case so that background goroutines leave the bubble.
var timedKinds = map[string]bool{}

type Closer interface{ Close() }

// gens maps a generator group (usually a property id) to its generator.
var gens = map[string]func(g *Gen){}

// Gen is handed to generators; Emit runs one case immediately.
type Gen struct {
	Tier      string
	Seed      uint64
	Shard, Of int
	rng       *SplitMix
	idx       int
	out       *bufio.Writer
	flushLine bool
	faultCnt  int
}

func (g *Gen) Thorough() bool { return g.Tier == "thorough" }

// Mine reports whether the next enumerated case belongs to this shard (and advances the index).
func (g *Gen) Mine() bool {
	i := g.idx
	g.idx++
	return g.Of <= 1 || i%g.Of == g.Shard
}

// Rng returns a PRNG stream derived from the seed, the shard and a label.
func (g *Gen) Rng(label string) *SplitMix {
	h := g.Seed*0x9E3779B97F4A7C15 + uint64(g.Shard)*0xBF58476D1CE4E5B9 + 0x94D049BB133111EB
	for _, c := range []byte(label) {
		h = (h ^ uint64(c)) * 0x100000001B3
	}
	return NewSplitMix(h)
}

// Emit executes the ops of one case on the real code and writes the trace.
func (g *Gen) Emit(kind string, params []string, ops []string) {
	runCase(g.out, g.flushLine, kind, params, g.faultLines(kind, ops))
}

// faultKinds: kinds whose lines are independent calls of helpers that take callbacks (plus the read-only
// Traverse of the trees).  For these, every few callback-taking lines the generator repeats the line as a
// fault line (the callback panics at its k-th invocation, the harness recovers) followed by the plain line
// again: a call that was cut short must not change the answer of the next one.
var faultKinds = map[string]bool{"c11": true, "c12": true, "c13": true, "c14": true, "bst": true, "btree": true}

func isCallbackTok(t string) bool {
	return len(t) == 2 && t[0] >= 'a' && t[0] <= 'z' && t[1] >= '0' && t[1] <= '9'
}

func (g *Gen) faultLines(kind string, ops []string) []string {
	if !faultKinds[kind] {
		return ops
	}
	out := make([]string, 0, len(ops)+8)
	for _, op := range ops {
		out = append(out, op)
		toks := strings.Fields(op)
		if len(toks) == 0 {
			continue
		}
		takes := toks[0] == "traverse"
		for _, t := range toks[1:] {
			if isCallbackTok(t) {
				takes = true
			}
		}
		if !takes {
			continue
		}
		g.faultCnt++
		if g.faultCnt%5 != 0 {
			continue
		}
		k := 1 + (g.faultCnt/5)%4
		out = append(out, "fault "+itoa(k)+" "+op, op)
	}
	return out
}

var curOut *bufio.Writer

// abandoned counts worker goroutines left behind by hung operations.
var abandoned int

func runCase(out *bufio.Writer, flushLine bool, kind string, params []string, ops []string) {
	mk, ok := kinds[kind]
	if !ok {
		fmt.Fprintf(os.Stderr, "harness: unknown kind %q\n", kind)
		os.Exit(2)
	}
	if timedKinds[kind] {
		runTimedCase(out, kind, params, ops, mk)
		return
	}
	fmt.Fprintf(out, "CASE %s", kind)
	for _, p := range params {
		fmt.Fprintf(out, " %s", p)
	}
	out.WriteByte('\n')
	// The case runs in its own goroutine so that an operation that never returns (a cycle in a
	// linked structure, a mutex left locked by a panic) is reported as `hang` and abandoned.
	reqs := make(chan []string)
	resps := make(chan string)
	go func() {
		var r Runner
		first := true
		for toks := range reqs {
			if first {
				first = false
				if res := guard(func() string { r = mk(params); return "" }); res != "" {
					resps <- "new:" + res
					return
				}
			}
			resps <- doLine(r, toks)
		}
	}()
	timer := time.NewTimer(time.Hour)
	defer timer.Stop()
	for _, op := range ops {
		toks := strings.Fields(op)
		if len(toks) == 0 {
			continue
		}
		reqs <- toks
		if !timer.Stop() {
			select {
			case <-timer.C:
			default:
			}
		}
		timer.Reset(hangLimit)
		var res string
		select {
		case res = <-resps:
		case <-timer.C:
			res = "hang"
		}
		if strings.HasPrefix(res, "new:") {
			fmt.Fprintf(out, "new => %s\n", res[4:])
			break
		}
		out.WriteString(strings.Join(toks, " "))
		out.WriteString(" => ")
		out.WriteString(res)
		out.WriteByte('\n')
		if flushLine {
			out.Flush()
		}
		if res == "hang" {
			abandoned++
			if abandoned > 5 { // each abandoned operation costs hangLimit of wall time: stop the shard early
				out.WriteString("END\n")
				out.Flush()
				os.Exit(3)
			}
			reqs = nil // the worker is stuck: leave it behind
			break
		}
		if res == "panic" && toks[0] != "fault" {
			break // the instance is in an undefined state: the case ends here
		}
	}
	if reqs != nil {
		close(reqs)
	}
	out.WriteString("END\n")
	out.Flush()
}

// hangLimit: an operation that has not returned after this long is reported as `hang` (a cycle in a linked
// structure, a mutex left locked).  Generous, because a starved process on a loaded machine must not be
// mistaken for a hang; VERIF_HANG_MS overrides it.
var hangLimit = func() time.Duration {
	if v := os.Getenv("VERIF_HANG_MS"); v != "" {
		return time.Duration(atoi(v)) * time.Millisecond
	}
	return 20 * time.Second
}()

// runTimedCase runs one case inside a synctest bubble.
func runTimedCase(out *bufio.Writer, kind string, params []string, ops []string, mk func([]string) Runner) {
	fmt.Fprintf(out, "CASE %s", kind)
	for _, p := range params {
		fmt.Fprintf(out, " %s", p)
	}
	out.WriteByte('\n')
	var lines []string
	res := guard(func() string {
		synctest.Test(theT, func(t *testing.T) {
			var r Runner
			if res := guard(func() string { r = mk(params); return "" }); res != "" {
				lines = append(lines, "new => "+res)
				return
			}
			defer func() {
				if c, ok := r.(Closer); ok {
					guard(func() string { c.Close(); return "" })
				}
			}()
			for _, op := range ops {
				toks := strings.Fields(op)
				if len(toks) == 0 {
					continue
				}
				var res string
				if toks[0] == "sleep" {
					time.Sleep(time.Duration(atoi(toks[1])) * time.Millisecond)
					synctest.Wait()
					res = "ok"
				} else {
					res = doLine(r, toks)
				}
				lines = append(lines, strings.Join(toks, " ")+" => "+res)
				if (res == "panic" && toks[0] != "fault") || res == "hang" {
					break
				}
			}
		})
		return ""
	})
	for _, l := range lines {
		out.WriteString(l)
		out.WriteByte('\n')
	}
	if res != "" {
		out.WriteString("bubble => " + res + "\n")
	}
	out.WriteString("END\n")
	out.Flush()
}

type hangSignal struct{}

// guard converts a Go panic into the protocol result "panic" (or "hang" for the cycle sentinel).
func guard(f func() string) (res string) {
	defer func() {
		if p := recover(); p != nil {
			if _, ok := p.(hangSignal); ok {
				res = "hang"
			} else {
				res = "panic"
			}
		}
	}()
	return f()
}

// theT is the *testing.T of TestHarness: the harness is built as a test binary because
// testing/synctest (virtual time for the timed properties) is only available inside a test.
var theT *testing.T

// TestHarness is the entry point:  harness.test -test.run '^TestHarness$' -test.timeout 0 <cmd> <args...>
func TestHarness(t *testing.T) {
	theT = t
	args := flag.Args()
	if len(args) < 1 {
		t.Skip("harness: no command (this binary is driven by /verif/bin/check)")
	}
	out := bufio.NewWriterSize(os.Stdout, 1<<16)
	curOut = out
	flushLine := os.Getenv("VERIF_FLUSH") == "1"
	finish := func(code int) {
		out.Flush()
		if code == 0 && os.Getenv("VERIF_COVER") == "1" {
			return // statement-coverage pass of bin/check: let the testing package write the cover profile
		}
		os.Exit(code) // skip the testing package's PASS/ok chatter on stdout
	}
	switch args[0] {
	case "groups":
		for k := range gens {
			fmt.Fprintln(out, k)
		}
	case "gen":
		fs := flag.NewFlagSet("gen", flag.ExitOnError)
		tier := fs.String("tier", "quick", "quick|thorough")
		seed := fs.Uint64("seed", 1, "seed")
		shard := fs.Int("shard", 0, "shard index")
		of := fs.Int("of", 1, "number of shards")
		if len(args) < 2 {
			finish(2)
		}
		fs.Parse(args[2:])
		gen, ok := gens[args[1]]
		if !ok {
			fmt.Fprintf(os.Stderr, "harness: unknown group %q\n", args[1])
			finish(2)
		}
		g := &Gen{Tier: *tier, Seed: *seed, Shard: *shard, Of: *of, out: out, flushLine: flushLine}
		gen(g)
	case "stress":
		out.Flush()
		finish(stressMain(args[1:]))
	case "replay":
		// Re-execute the operations of the cases on stdin (results after "=>" are ignored).
		sc := bufio.NewScanner(os.Stdin)
		sc.Buffer(make([]byte, 1<<20), 1<<26)
		var kind string
		var params, ops []string
		have := false
		flush := func() {
			if have {
				runCase(out, flushLine, kind, params, ops)
			}
			have = false
			ops = nil
		}
		for sc.Scan() {
			line := strings.TrimSpace(sc.Text())
			if line == "" || strings.HasPrefix(line, "#") {
				continue
			}
			if strings.HasPrefix(line, "CASE ") {
				flush()
				f := strings.Fields(line)
				kind, params, have = f[1], f[2:], true
				continue
			}
			if line == "END" {
				flush()
				continue
			}
			if i := strings.Index(line, "=>"); i >= 0 {
				line = strings.TrimSpace(line[:i])
			}
			if line == "new" {
				continue
			}
			ops = append(ops, line)
		}
		flush()
	default:
		fmt.Fprintln(os.Stderr, "harness: unknown command", args[0])
		finish(2)
	}
	finish(0)
}
