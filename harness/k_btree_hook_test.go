//go:build verif

package main

import (
	"sort"

	"github.com/esimov/gogu/btree"
)

// btreeShape uses the verif hook btree.(*BTree).VerifShape: "<height> <nested>", a leaf is the list of its
// keys, an internal node the list of [separator key, child] pairs.
func btreeShape(t *btree.BTree[int, int]) string {
	root, h := t.VerifShape()
	var render func(n *btree.VerifNode[int], height int) string
	render = func(n *btree.VerifNode[int], height int) string {
		if n == nil {
			return "nil"
		}
		if height == 0 {
			return ints(n.Keys)
		}
		items := make([]string, len(n.Keys))
		for i, k := range n.Keys {
			var c *btree.VerifNode[int]
			if i < len(n.Children) {
				c = n.Children[i]
			}
			items[i] = "[" + itoa(k) + "," + render(c, height-1) + "]"
		}
		return plist(items)
	}
	return itoa(h) + " " + render(root, h)
}

// btreeNodes counts nodes and entries of the current structure (used by the adversary below).
func btreeNodes(t *btree.BTree[int, int]) (nodes, height int) {
	root, h := t.VerifShape()
	var walk func(n *btree.VerifNode[int])
	walk = func(n *btree.VerifNode[int]) {
		if n == nil {
			return
		}
		nodes++
		for _, c := range n.Children {
			walk(c)
		}
	}
	walk(root)
	return nodes, h
}

// btreeAdversary searches greedily for an insertion order that makes the tree as sparse (hence as tall) as
// this implementation allows: at every step each gap between the keys inserted so far is tried and the
// candidate that yields the most nodes (then the greatest height) is kept.  It only uses Put and the shape
// hook of the REAL code; the resulting Put sequence is emitted as an ordinary case and judged by the monitor
// (height bound).  On the code the model was written for the search cannot beat the bound (theorem
// height_bound); after a change of the split policy it is the failing-input search.
func btreeAdversary(n int, variant int) []int {
	// keys are taken from a sparse integer line so that a new key fits into any gap
	type cand struct{ key int }
	var seq []int
	build := func(keys []int) *btree.BTree[int, int] {
		t := btree.New[int, int]()
		for _, k := range keys {
			t.Put(k, 0)
		}
		return t
	}
	seq = append(seq, 1<<40)
	for len(seq) < n {
		sorted := append([]int{}, seq...)
		sort.Ints(sorted)
		var cands []int
		cands = append(cands, sorted[0]-(1<<20))
		for i := 0; i+1 < len(sorted); i++ {
			if sorted[i+1]-sorted[i] > 1 {
				cands = append(cands, sorted[i]+(sorted[i+1]-sorted[i])/2)
			}
		}
		cands = append(cands, sorted[len(sorted)-1]+(1<<20))
		bestKey, bestNodes, bestH := cands[0], -1, -1
		for ci, c := range cands {
			t := build(append(append([]int{}, seq...), c))
			nodes, h := btreeNodes(t)
			better := h > bestH || (h == bestH && nodes > bestNodes)
			if variant == 1 {
				better = nodes > bestNodes || (nodes == bestNodes && h > bestH)
			}
			if variant == 2 && nodes == bestNodes && h == bestH && ci%2 == 1 {
				better = true // prefer later gaps on ties
			}
			if better {
				bestKey, bestNodes, bestH = c, nodes, h
			}
		}
		seq = append(seq, bestKey)
	}
	// rename the keys to 0..n-1 keeping their order (small numbers in the trace)
	sorted := append([]int{}, seq...)
	sort.Ints(sorted)
	rank := map[int]int{}
	for i, k := range sorted {
		rank[k] = i
	}
	out := make([]int, len(seq))
	for i, k := range seq {
		out[i] = rank[k]
	}
	return out
}
