//go:build !verif

package main

import "github.com/esimov/gogu/btree"

func btreeShape(t *btree.BTree[int, int]) string { return "nohook" }
func btreeAdversary(n int, variant int) []int    { return nil }
