// Package sync is a drop-in replacement for the parts of the standard sync package that the gogu
// container packages use, backed by a cooperative scheduler: exactly one logical thread runs at a time
// and control changes hands only at lock acquisitions and call boundaries.  A driver enumerates every
// schedule (stateless depth-first search), i.e. every interleaving at critical-section granularity.
//
// This file is copied into a scratch copy of the repository by /verif/bin/check (C02); the container
// packages' import of "sync" is redirected to it there.  It is never part of /repo.
package sync

import (
	"fmt"
	rsync "sync"
)

type WaitGroup = rsync.WaitGroup
type Once = rsync.Once
type Locker = rsync.Locker

// The remaining types of package sync are the real ones: they are no scheduling points of the cooperative scheduler
// (only one logical thread runs at a time), but code that uses them (a sync.Pool of buffers, a sync.Map, a Cond) must
// still compile against the shim.
type Pool = rsync.Pool
type Map = rsync.Map
type Cond = rsync.Cond

func NewCond(l Locker) *Cond { return rsync.NewCond(l) }

// OnceFunc and friends
func OnceFunc(f func()) func() { return rsync.OnceFunc(f) }

// RWMutex state is only touched by the running thread, so it needs no real synchronisation.
type RWMutex struct {
	readers int
	writer  bool
}

type Mutex struct{ rw RWMutex }

func (m *Mutex) Lock()   { m.rw.Lock() }
func (m *Mutex) Unlock() { m.rw.Unlock() }

func (m *RWMutex) free(write bool) bool {
	if write {
		return !m.writer && m.readers == 0
	}
	return !m.writer
}

func (m *RWMutex) take(write bool) {
	if write {
		m.writer = true
	} else {
		m.readers++
	}
}

func (m *RWMutex) Lock()  { acquire(m, true) }
func (m *RWMutex) RLock() { acquire(m, false) }
func (m *RWMutex) Unlock() {
	if !m.writer {
		panic("vsync: Unlock of unlocked RWMutex")
	}
	m.writer = false
	logEvent("U")
}
func (m *RWMutex) RUnlock() {
	if m.readers <= 0 {
		panic("vsync: RUnlock of unlocked RWMutex")
	}
	m.readers--
	logEvent("u")
}

// ---- scheduler ------------------------------------------------------------------------------------

type Thread struct {
	ID     int
	resume chan struct{}
	want   *RWMutex
	wantW  bool
	done   bool
	Events string // lock events of this thread ("L","l","U","u"), for cross-checking the translator's table
}

type event struct {
	t    *Thread
	done bool
}

type Sched struct {
	threads []*Thread
	cur     *Thread
	ctl     chan event
	// Trace of decisions: for each decision point the enabled thread ids and the index chosen.
	Enabled [][]int
	Chosen  []int
	Clock   int
}

var S *Sched

// CurEvents returns the lock events ("L","l","U","u") of the running logical thread so far.
func CurEvents() string {
	if S != nil && S.cur != nil {
		return S.cur.Events
	}
	return ""
}

func logEvent(e string) {
	if S != nil && S.cur != nil {
		S.cur.Events += e
	}
}

func acquire(m *RWMutex, write bool) {
	if S == nil || S.cur == nil {
		// sequential code (set-up, final observation)
		if !m.free(write) {
			panic("vsync: sequential code blocks on a held lock")
		}
		m.take(write)
		return
	}
	t := S.cur
	t.want, t.wantW = m, write
	S.ctl <- event{t: t}
	<-t.resume
	// granted by the controller (it checked availability)
	t.want = nil
	m.take(write)
	if write {
		t.Events += "L"
	} else {
		t.Events += "l"
	}
}

// Yield is a scheduling point without a lock request (call boundaries).
func Yield() {
	t := S.cur
	t.want = nil
	S.ctl <- event{t: t}
	<-t.resume
}

// Result of one controlled execution.
type Result struct {
	Deadlock bool
	Steps    int
}

// Run executes the bodies as logical threads under the schedule prefix (thread ids to choose at the
// successive decision points; beyond the prefix the first enabled thread is chosen).
func Run(bodies []func(), prefix []int) (*Sched, Result) {
	s := &Sched{ctl: make(chan event)}
	S = s
	for i, body := range bodies {
		t := &Thread{ID: i, resume: make(chan struct{})}
		s.threads = append(s.threads, t)
		b := body
		go func() {
			<-t.resume
			func() {
				defer func() {
					if p := recover(); p != nil {
						t.Events += fmt.Sprintf("!panic(%v)", p)
					}
				}()
				b()
			}()
			s.ctl <- event{t: t, done: true}
		}()
	}
	res := Result{}
	for {
		var en []int
		alive := false
		for _, t := range s.threads {
			if t.done {
				continue
			}
			alive = true
			if t.want == nil || t.want.free(t.wantW) {
				en = append(en, t.ID)
			}
		}
		if !alive {
			break
		}
		if len(en) == 0 {
			res.Deadlock = true
			break
		}
		d := len(s.Chosen)
		pick := en[0]
		if d < len(prefix) {
			pick = prefix[d]
		}
		s.Enabled = append(s.Enabled, en)
		s.Chosen = append(s.Chosen, pick)
		t := s.threads[pick]
		s.cur = t
		s.Clock++
		t.resume <- struct{}{}
		ev := <-s.ctl
		if ev.done {
			ev.t.done = true
		}
		s.cur = nil
		res.Steps++
	}
	S = nil
	return s, res
}

// Explore runs every schedule (depth-first over the decision points) and calls visit after each
// complete execution; setup is called before each execution and returns the thread bodies.
func Explore(setup func() []func(), visit func(s *Sched, r Result), limit int) (executions int, truncated bool) {
	var prefix []int
	for {
		bodies := setup()
		s, r := Run(bodies, prefix)
		executions++
		visit(s, r)
		if limit > 0 && executions >= limit {
			return executions, true
		}
		// backtrack: deepest decision with an untried alternative
		d := len(s.Chosen) - 1
		for d >= 0 {
			en := s.Enabled[d]
			idx := -1
			for i, id := range en {
				if id == s.Chosen[d] {
					idx = i
				}
			}
			if idx+1 < len(en) {
				prefix = append(append([]int{}, s.Chosen[:d]...), en[idx+1])
				break
			}
			d--
		}
		if d < 0 {
			return executions, false
		}
	}
}
