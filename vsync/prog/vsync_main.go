package main

// Exhaustive interleaving exploration for C02 (linearizability).  Built only inside the scratch copy
// assembled by /verif/bin/check: the container packages there import the cooperative-scheduler shim
// instead of "sync".  The op implementations are the harness's own runners (copied next to this file).

import (
	"bufio"
	"fmt"
	"hash/fnv"
	"os"
	"strings"
	"time"

	vs "github.com/esimov/gogu/vsyncshim"
)

type linType struct {
	kind   string   // harness kind (and the Lean monitor used as sequential oracle)
	params []string // CASE parameters of that kind
	inits  [][]string
	ops    []string // single-element operations (protocol syntax)
	obs    []string // sequential observation after all threads finished
}

// bigInits: additional, large initial states per kind (thresholds a change introduced into the source); explored
// only with the 2 x 1 programs and observed without dumping the contents
var bigInits = map[string][][]string{}

func linTypes() []linType {
	types := []linType{
		{"queue", nil, [][]string{{}, {"enqueue 1"}, {"enqueue 1", "enqueue 2"}},
			[]string{"enqueue 1", "enqueue 2", "dequeue", "peek", "size", "search 1", "clear"},
			[]string{"size", "dequeue", "dequeue", "dequeue", "dequeue", "size"}},
		{"lqueue", []string{"1"}, [][]string{{}, {"enqueue 2"}, {"dequeue"}},
			[]string{"enqueue 1", "enqueue 2", "dequeue", "peek", "size", "search 1", "clear"},
			[]string{"size", "dequeue", "dequeue", "dequeue", "dequeue", "size"}},
		{"stack", nil, [][]string{{}, {"push 1"}, {"push 1", "push 2"}},
			[]string{"push 1", "push 2", "pop", "peek", "size", "search 1"},
			[]string{"size", "pop", "pop", "pop", "pop", "size"}},
		{"lstack", []string{"1"}, [][]string{{}, {"push 2"}},
			[]string{"push 2", "push 3", "pop", "peek", "size", "search 2"},
			[]string{"size", "peek", "pop", "pop", "pop", "pop", "size"}},
		{"heap", []string{"lt"}, [][]string{{}, {"push 2"}, {"push 1", "push 3"}},
			[]string{"push 1", "push 2", "pop", "peek", "size", "clear", "delete 2"},
			[]string{"size", "values", "pop", "pop", "pop", "pop", "size"}},
		// fourth initial state: the key the programs upsert and delete sits in a node with two children (its removal
		// copies the in-order successor into that node)
		{"bst", []string{"lt"}, [][]string{{}, {"upsert 1 7"}, {"upsert 1 7", "upsert 2 8"}, {"upsert 2 8", "upsert 1 7", "upsert 3 9"}},
			[]string{"upsert 1 5", "upsert 2 6", "get 1", "delete 1", "delete 2", "size"},
			[]string{"size", "traverse", "get 1", "get 2"}},
		{"trie", nil, [][]string{{}, {"put x61 7"}, {"put x6162 7"}},
			[]string{"put x61 5", "put x6162 6", "get x61", "contains x6162", "size"},
			[]string{"size", "keys", "get x61", "get x6162"}},
		// third initial state: an entry that has expired but has not been purged (1 ms lifetime, 3 ms real sleep)
		{"cache", []string{"-1", "0", "int"}, [][]string{{}, {"set 0 7 0"}, {"set 0 7 1", "sleep 3"}},
			[]string{"set 0 5 0", "set 1 6 -1", "get 0", "update 0 8 0", "delete 0", "count", "delexp"},
			[]string{"held", "count", "list", "get 0", "get 1"}},
	}
	// thresholds a change introduced into the source (VERIF_SIZES): a heap whose backing array is exactly full
	for _, s := range extraSizes() {
		if s > 20000 {
			continue
		}
		vals := make([]int, s+1)
		for i := range vals {
			vals[i] = 3 + i%5
		}
		for i := range types {
			if types[i].kind == "heap" {
				bigInits["heap"] = append(bigInits["heap"], []string{"fromslice " + ints(vals) + " lt"})
			}
		}
	}
	return types
}

// lockPatterns: observed lock-event pattern ("L"/"U" write lock, "l"/"u" read lock) per call of a method, for
// cross-checking the section table the translator extracted from the source ("<type> <Method>" -> patterns).
var lockPatterns = map[string]map[string]bool{}

var methodOf = map[string][2]string{
	"queue": {"queue.Queue", ""}, "lqueue": {"queue.LQueue", ""}, "stack": {"stack.Stack", ""}, "lstack": {"stack.LStack", ""},
	"heap": {"heap.Heap", ""}, "bst": {"bstree.BsTree", ""}, "trie": {"trie.Trie", ""}, "cache": {"cache.Cache", ""},
}

var opMethod = map[string]string{"enqueue": "Enqueue", "dequeue": "Dequeue", "peek": "Peek", "size": "Size", "search": "Search",
	"clear": "Clear", "push": "Push", "pop": "Pop", "delete": "Delete", "upsert": "Upsert", "get": "Get", "put": "Put",
	"contains": "Contains", "set": "Set", "update": "Update", "count": "Count", "delexp": "DeleteExpired"}

func noteLocks(kind, op, pattern string) {
	m, ok := opMethod[op]
	t, ok2 := methodOf[kind]
	if !ok || !ok2 {
		return
	}
	if kind == "heap" && op == "delete" {
		// the harness's `delete` reads GetValues() first (to report the victim's slot): not part of Heap.Delete
		pattern = strings.TrimPrefix(pattern, "lu")
	}
	k := t[0] + " " + m
	if lockPatterns[k] == nil {
		lockPatterns[k] = map[string]bool{}
	}
	if pattern == "" {
		pattern = "-"
	}
	lockPatterns[k][pattern] = true
}

type callRec struct {
	tid      int
	inv, ret int
	op, res  string
}

func main() {
	durUnit = time.Microsecond // cache durations: see k_cache (expired-but-unpurged initial state)
	tier := "quick"
	only := ""
	for i := 1; i < len(os.Args); i++ {
		switch os.Args[i] {
		case "-tier":
			i++
			tier = os.Args[i]
		case "-only":
			i++
			only = os.Args[i]
		}
	}
	out := bufio.NewWriterSize(os.Stdout, 1<<16)
	defer out.Flush()
	totalExec, totalHist, totalProg := 0, 0, 0
	for _, lt := range linTypes() {
		if only != "" && lt.kind != only {
			continue
		}
		// programs: quick = 2 threads x 1 call and 3 x 1; thorough adds 2 x 2
		var shapes [][]int
		shapes = append(shapes, []int{1, 1}, []int{1, 1, 1})
		if tier == "thorough" {
			shapes = append(shapes, []int{2, 2}, []int{2, 1})
		} else {
			shapes = append(shapes, []int{2, 1})
		}
		for _, shape := range shapes {
			ncalls := 0
			for _, c := range shape {
				ncalls += c
			}
			seqs(lt.ops, ncalls, func(sel []string) {
				// canonical form: thread programs in non-decreasing order when thread lengths are equal
				prog := make([][]string, len(shape))
				k := 0
				for ti, c := range shape {
					prog[ti] = append([]string{}, sel[k:k+c]...)
					k += c
				}
				for ti := 1; ti < len(shape); ti++ {
					if shape[ti] == shape[ti-1] && strings.Join(prog[ti], ";") < strings.Join(prog[ti-1], ";") {
						return
					}
				}
				inits := lt.inits
				if len(shape) == 2 && ncalls == 2 {
					inits = append(append([][]string{}, lt.inits...), bigInits[lt.kind]...)
				}
				for ii, init := range inits {
					big := ii >= len(lt.inits)
					totalProg++
					seen := map[uint64]bool{}
					var recs []callRec
					var runner Runner
					setup := func() []func() {
						recs = recs[:0]
						runner = kinds[lt.kind](lt.params)
						for _, op := range init {
							res := guard(func() string { return runner.Do(strings.Fields(op)) })
							recs = append(recs, callRec{tid: 90, inv: 0, ret: 0, op: op, res: res})
						}
						bodies := make([]func(), len(prog))
						for ti := range prog {
							ti := ti
							bodies[ti] = func() {
								for ci, op := range prog[ti] {
									if ci > 0 {
										vs.Yield() // the next call's start is a scheduling point
									}
									inv := vs.S.Clock
									before := len(vs.CurEvents())
									res := guard(func() string { return runner.Do(strings.Fields(op)) })
									recs = append(recs, callRec{tid: ti, inv: inv, ret: vs.S.Clock, op: op, res: res})
									if ev := vs.CurEvents(); len(ev) >= before {
										noteLocks(lt.kind, strings.Fields(op)[0], ev[before:])
									}
								}
							}
						}
						return bodies
					}
					visit := func(s *vs.Sched, r vs.Result) {
						totalExec++
						var sb strings.Builder
						fmt.Fprintf(&sb, "CASE lin %s %s\n", lt.kind, strings.Join(lt.params, " "))
						initN, obsN := 0, 0
						for _, c := range recs {
							// stamps: a call occupies the half-open clock interval; A precedes B iff A.ret < B.inv.
							// inv is the clock when the call started running (the value before its first step
							// completes), ret the clock when it returned: use 2*clock so that "returned in step k"
							// precedes "started in step k+1" strictly.
							if c.tid == 90 {
								fmt.Fprintf(&sb, "h 90 %d %d %s => %s\n", -1000+2*initN, -1000+2*initN+1, c.op, c.res)
								initN++
							} else {
								fmt.Fprintf(&sb, "h %d %d %d %s => %s\n", c.tid, 2*c.inv, 2*c.ret+1, c.op, c.res)
							}
						}
						if r.Deadlock {
							sb.WriteString("deadlock => T\n")
						} else {
							for _, op := range lt.obs {
								if big && op == "values" {
									continue
								}
								res := guard(func() string { return runner.Do(strings.Fields(op)) })
								fmt.Fprintf(&sb, "h 99 %d %d %s => %s\n", 1000000+2*obsN, 1000001+2*obsN, op, res)
								obsN++
							}
						}
						var ev []string
						for ti := range prog {
							_ = ti
						}
						_ = ev
						sb.WriteString("check => ok\nEND\n")
						h := fnv.New64a()
						for i, a := range recs {
							fmt.Fprintf(h, "%d|%s|%s|", a.tid, a.op, a.res)
							for j, b := range recs {
								if i != j && a.tid != 90 && b.tid != 90 && 2*a.ret+1 < 2*b.inv {
									fmt.Fprintf(h, "<%d", j)
								}
							}
						}
						if i := strings.Index(sb.String(), "h 99 "); i >= 0 {
							h.Write([]byte(sb.String()[i:]))
						}
						if r.Deadlock {
							h.Write([]byte("deadlock"))
						}
						if !seen[h.Sum64()] {
							seen[h.Sum64()] = true
							totalHist++
							out.WriteString(sb.String())
						}
					}
					vs.Explore(setup, visit, 200000)
				}
			})
		}
	}
	out.Flush()
	for k, pats := range lockPatterns {
		for p := range pats {
			fmt.Fprintf(os.Stderr, "LOCKS %s %s\n", k, p)
		}
	}
	fmt.Fprintf(os.Stderr, "VSYNC programs=%d executions=%d histories=%d\n", totalProg, totalExec, totalHist)
}
