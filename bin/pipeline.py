"""Shared pipeline helpers: run a producer of protocol lines into the compiled Lean driver and collect its verdicts."""
import os, re, subprocess, tempfile

VERIF = os.path.dirname(os.path.dirname(os.path.abspath(__file__)))
DRIVER = os.path.join(VERIF, "lean", ".lake", "build", "bin", "driver")


class RunResult:
    def __init__(self):
        self.cases = 0; self.lines = 0; self.tags = {}; self.hashes = set()
        self.spec = []; self.diff = []; self.known = {}; self.bad = []; self.crash = []
        self.timeouts = 0    # shards stopped because the time budget was exhausted
        self.traces = {}     # (shard, case#) -> list of lines
        self.samples = []

    def merge_line(self, shard, line, cur):
        if line.startswith("N "):
            self.hashes.add(line[2:])
        elif line.startswith("TAG "):
            _, t, c = line.split(" ", 2)
            self.tags[t] = self.tags.get(t, 0) + int(c)
        elif line.startswith("DONE "):
            m = re.match(r"DONE cases=(\d+) lines=(\d+)", line)
            self.cases += int(m.group(1)); self.lines += int(m.group(2))
        elif line.startswith("SPEC "):
            f = line.split(" ", 5)
            self.spec.append(dict(shard=shard, case=int(f[1]), line=int(f[2]), kind=f[3], clause=f[4], text=line))
        elif line.startswith("DIFF "):
            f = line.split(" ", 4)
            self.diff.append(dict(shard=shard, case=int(f[1]), line=int(f[2]), kind=f[3], text=line))
        elif line.startswith("KNOWN "):
            f = line.split(" ", 4)
            sig = f[4].strip()
            self.known.setdefault(sig, dict(shard=shard, case=int(f[1]), line=int(f[2]), kind=f[3], count=0))["count"] += 1
        elif line.startswith("BAD "):
            self.bad.append(line)
        elif line == "TIMEOUT":
            self.timeouts += 1


def pipe_run(shard, producer_cmd, stdin_data=None, env=None, timeout=3000):
    """producer | driver ; returns (driver output lines, producer rc, producer stderr)."""
    errf = tempfile.TemporaryFile()
    inf = None
    if stdin_data is not None:
        # stdin comes from a temporary file: writing it through a pipe before reading the driver's output
        # deadlocks once the volume exceeds the pipe buffers
        inf = tempfile.TemporaryFile()
        inf.write(stdin_data.encode()); inf.flush(); inf.seek(0)
        prod = subprocess.Popen(producer_cmd, stdin=inf, stdout=subprocess.PIPE, stderr=errf, env=env)
    else:
        prod = subprocess.Popen(producer_cmd, stdout=subprocess.PIPE, stderr=errf, env=env)
    drv = subprocess.Popen([DRIVER], stdin=prod.stdout, stdout=subprocess.PIPE, text=True)
    prod.stdout.close()
    try:
        out, _ = drv.communicate(timeout=timeout)
    except subprocess.TimeoutExpired:
        drv.kill(); prod.kill()
        out, _ = drv.communicate()
        out += "\nTIMEOUT\n"          # budget exhausted: not a verdict (the lines judged so far still count)
    prc = prod.wait()
    errf.seek(0)
    err = errf.read().decode(errors="replace")[-4000:]
    errf.close()
    if inf is not None:
        inf.close()
    return out.splitlines(), prc, err


def collect(res, shard, lines, prc, err, label):
    cur_trace = None
    if "TIMEOUT" in lines:
        # the driver was killed at the end of the time budget: its last line may be cut in the middle
        k = lines.index("TIMEOUT")
        lines = [l for i, l in enumerate(lines) if i != k - 1 or not l.strip()] if k > 0 else lines
    for line in lines:
        if line.startswith("BEGINTRACE "):
            cur_trace = (shard, int(line.split()[1])); res.traces[cur_trace] = []
        elif line == "ENDTRACE":
            cur_trace = None
        elif cur_trace is not None:
            res.traces[cur_trace].append(line)
        elif line.startswith("SAMPLE "):
            if len(res.samples) < 6:
                res.samples.append(line[7:])
        else:
            try:
                res.merge_line(shard, line, None)
            except (ValueError, IndexError, AttributeError):
                res.bad.append(f"{label}: unreadable driver line: {line[:200]}")
    if "TIMEOUT" in lines:
        return                      # the producer was killed with the driver: its exit status says nothing
    if prc not in (0, 3):           # 3 = watchdog (a `hang` line was emitted and is judged by the monitor)
        res.crash.append(f"{label}: harness exit {prc}: {err[-1500:]}")


def merge(a, b):
    a.cases += b.cases; a.lines += b.lines; a.timeouts += b.timeouts
    for k, v in b.tags.items():
        a.tags[k] = a.tags.get(k, 0) + v
    a.hashes |= b.hashes; a.spec += b.spec; a.diff += b.diff; a.bad += b.bad; a.crash += b.crash
    for k, v in b.known.items():
        if k in a.known:
            a.known[k]["count"] += v["count"]
        else:
            a.known[k] = v
    a.traces.update(b.traces)
    for s in b.samples:
        if len(a.samples) < 6:
            a.samples.append(s)


