"""Per-property configuration of bin/check (what to build, what to run, how evidence is described)."""

TRUSTED_COMMON = [
    "Lean 4.33.0 kernel; axioms allowed: propext, Classical.choice, Quot.sound (audited with #print axioms on every run; no native_decide / bv_decide / sorry / own axioms)",
    "hand-written Lean models tied to /repo by the correspondence run (differential testing; strength bounded by the generators)",
    "Go harness canonicalisation and the Lean driver's parser/printer",
]

PROPS = {
    "C01": dict(
        level_text="Proof: generic theorems over the lock-discipline LTS (any number of threads, any sequence of sections, any interleaving admitted by sync.RWMutex): well-locked sections never reach a state with two conflicting simultaneous accesses (race_free) and never deadlock (deadlock_free); the per-method section/access table is REGENERATED from /repo's source by the translator on every run and decided (table_ok, by `decide`) to be well-locked and free of nestedAcquire / unbalanced / holdsTwo / escaping-alias / blocks-while-holding flags; instantiation theorems for the regenerated table. A -race stress run of every method pair (thorough: triples, mixes) validates the extraction and is the failing-input search when the obligation breaks.",
        level_note="Partial: the translator's mod/ref and lock-event extraction is trusted (validated by the race detector, not proved); Go memory model (DRF-SC), sync.RWMutex semantics and the runtime are assumed; callbacks passed to Traverse are assumed not to re-enter the instance. The race detector supports, never replaces, the theorem.",
        technique="Lean 4 generic invariant proof + `decide` over a lock/access table regenerated from the Go source; Go race-detector stress as failing-input search",
        groups=[], replay_engine=True,
        rule="every unordered pair of exported methods (incl. the instance used as Merge/Meld argument and data handed back by GetValues/List being read) of each of the 8 lock-guarded types x initial sizes {0,1,3,6} x repetitions with randomised start order, GOMAXPROCS 1..8 and injected Gosched, under the race detector with panic recovery, stall watchdog and a sequential usability check afterwards; thorough adds 300 random triples and 60 long mixes per type; distinct = distinct (type, method set, initial size)",
        trusted=["translator (go/packages + go/types): lock-section and mod/ref extraction", "Go race detector as dynamic validation of the extracted table"],
        assumptions=["Go memory model: data-race-free programs are sequentially consistent", "sync.RWMutex admission semantics as documented", "callbacks do not re-enter the container; comparators are pure"],
    ),
    "C03": dict(
        level_text="Proof: the array model of heap.go keeps the heap invariant and the multiset of elements under every operation (sift lemmas, permutation lemmas), so Peek/Pop are extremal for every strict weak order and Sort is an ordered permutation; the unrepaired Delete-without-re-sift is a recorded known finding with its negation witness and an exact partial theorem. Model tied to the code by exhaustive small-scope + seeded correspondence; the Lean multiset/extremality monitor judges the implementation's own answers.",
        level_note="Lean kernel + standard axioms; comparator assumed to be a strict weak order (decidable hypothesis, shown for the comparators used); array model hand-written.",
        groups=["C03"], quick_shards=16,
        observers=("size", "peek", "values", "isempty"),
        rule="all sequences of <= 4 (quick) / 5 (thorough) mutations from {Push 1..4, Delete 1..4, Pop, Clear, Convert, Merge, Meld} with observers after each step and a final drain, both < and >; FromSlice/Sort on all slices up to length 6/7 over 4 values for <, > and by-key-with-ties; seeded random histories (length <= 120, four comparators); non-trivial = heap reached >= 4 elements (depth 3) or held duplicates, or a Sort of >= 3 elements; distinct = distinct op sequence",
        exhaustive_part="all mutation sequences up to the tier's length bound over the 13-symbol alphabet; all input slices up to the bound for FromSlice/Sort",
        trusted=["comparators in the harness and in the driver are the same four functions (lt, gt, by-key x/10)"],
        assumptions=["comparator is a strict weak order", "int elements stand for every comparable T"],
    ),
    "C04": dict(
        level_text="Proof: the inductive tree model of bstree.go preserves the BST invariant and refines the ordered association list (Get = lookup, Upsert = insert, Delete = erase incl. two-child deletion via the successor, Traverse = the list) for every history and every strict total comparator; Size is characterised exactly (present keys minus failed deletes: known finding). Tie: exhaustive small-scope + seeded correspondence; Lean ordered-map monitor on the implementation's answers.",
        level_note="Lean kernel + standard axioms; comparator assumed strict total order; tree nodes unaliased; Traverse's goroutine/channel plumbing modelled as the in-order list.",
        groups=["C04"], quick_shards=16,
        observers=("size", "traverse", "get"),
        rule="all sequences of <= 5 (quick) / 6 (thorough) Upsert/Delete over keys 0..4, observers Size/Traverse/Get 0..4 after every step, both comparators; seeded runs over key ranges 8/30/200 with sorted/reversed/random insertion; non-trivial = a present key with both a smaller and a larger present key was deleted (two-child candidate) and >= 3 keys were held; distinct = distinct op sequence",
        exhaustive_part="all mutation sequences up to the tier's bound over a 10-symbol alphabet, both comparators",
        assumptions=["comparator is a strict total order", "int keys/values stand for the generic K, V"],
    ),
    "C07": dict(
        level_text="Proof: the LRU model (key set + recency list, kept separate as in the code) keeps its invariant (distinct keys, map = list keys, length <= cap) and refines the recency-ordered finite map for every history; eviction/oldest/youngest clauses are corollaries. Tie: exhaustive small-scope + seeded correspondence; Lean monitor on the implementation's answers.",
        level_note="Lean kernel + standard axioms; pointer surgery of the eviction list abstracted to list operations (modelled, checked by correspondence).",
        groups=["C07"], quick_shards=16,
        observers=("count", "getyoungest"),
        rule="capacities 1..4, all sequences of <= 4 (quick) / 5 (thorough) ops from {Add k, Get k, Remove k (k=0..3), GetOldest, RemoveOldest, RemoveYoungest} with Count/GetYoungest after each and a final RemoveOldest drain; NewLRU(n<=0); seeded runs with capacity <= 12; non-trivial = an eviction happened (or a rejected capacity); distinct = distinct op sequence",
        exhaustive_part="all op sequences up to the tier's bound over a 15-symbol alphabet for capacities 1..4",
        assumptions=["int keys/values stand for the generic K, V"],
    ),
    "C08": dict(
        level_text="Proof: the cache model (association list key -> (value, deadline), every operation parameterised by `now`, janitor = DeleteExpired at tick events) refines the map-with-deadlines spec for every history and every instant: Set stores iff no live entry and the value is accepted, Update always stores, an entry with positive duration d stored at t0 is returned at every now < t0+d and refused at every now > t0+d, entries with deadline <= 0 never expire and are never purged, DeleteExpired removes exactly the expired ones, IsExpired characterised. Tie: exhaustive time-free small-scope + seeded timed scripts executed on the real code under testing/synctest (virtual clock, exact comparison); Lean monitor (set of admitted states; the instant now = deadline is left open as the property leaves it).",
        level_note="Lean kernel + standard axioms; partial for 'within about one interval': ticker punctuality (time.Ticker under the synctest virtual clock) is assumed, real-clock scheduling is not modelled.",
        groups=["C08"], quick_shards=16,
        observers=("count", "list", "get", "isexpired"),
        rule="configs {-1,0,1000ms} x cleanup {off,50ms} x {int,string} values: all sequences of <= 2 (quick) / 3 (thorough) mutations from a 31-symbol alphabet (Set/Update per key x duration {default,none,long}, rejected values, Delete, Flush, DeleteExpired, MapToCache) with Count/List/Get/IsExpired after each; seeded timed scripts (virtual clock) with sleeps placing observations before/at/after deadlines and cleanup ticks; non-trivial = an expiry was observed (Get error on a stored key or IsExpired true) or a value/duplicate was rejected; distinct = distinct op sequence",
        exhaustive_part="time-free part: all mutation sequences up to the tier's bound for all 12 configurations",
        trusted=["testing/synctest virtual clock: timers and tickers fire exactly at their deadline"],
        assumptions=["keys k0..k2 and int / non-empty-string values stand for the generic K ~string, V any"],
    ),
    "C09": dict(
        level_text="Proof: the inductive ternary-tree model of trie.go refines the finite map from non-empty byte strings (Get/Contains exact, Size = distinct keys, Keys/StartsWith in byte-lexicographic order, LongestPrefix) for every Put history. Tie: exhaustive small-scope + seeded correspondence incl. non-ASCII bytes; Lean monitor on the implementation's answers.",
        level_note="Lean kernel + standard axioms; result queue modelled as a list (queue.Queue is C05's business).",
        groups=["C09"], quick_shards=16,
        observers=("get", "contains", "size", "keys", "startswith", "longestprefix"),
        rule="all Put sequences of <= 3 keys of length 1..2 (quick) / 1..3 (thorough) over {a, b, 0xC3} (all orders, re-puts), then every query of length 0..3/4 over the alphabet for Get/Contains/StartsWith/LongestPrefix plus Size/Keys; seeded random key sets with shared prefixes, nested keys and bytes >= 0x80; non-trivial = some stored key is a proper prefix of another and >= 3 keys stored; distinct = distinct op sequence",
        exhaustive_part="all key sequences up to the bound with all queries over the alphabet",
        assumptions=["int values stand for the generic V"],
    ),
    "C10": dict(
        level_text="Proof: the height-indexed B-tree model of btree.go keeps its invariant (sorted entries, separators, node fill, uniform leaf depth) and refines the ordered association list with tombstones for every Put/Remove history; 2^height <= max(1,N) follows from the fill invariant. Tie: exhaustive small-scope + seeded correspondence with multi-level splits; Lean monitor on the implementation's answers (Height judged against the bound only).",
        level_note="Lean kernel + standard axioms; maxChildren = 4 read from the source by the translator.",
        groups=["C10"], quick_shards=16,
        observers=("size", "isempty", "height", "traverse", "get"),
        rule="all sequences of <= 4 (quick) / 6 (thorough) Put/Remove over keys 0..5 with all observers after each step; seeded runs of up to 300 keys sorted/reversed/random followed by mixed Put/Remove/Get; non-trivial = height >= 1 reached and some key removed; distinct = distinct op sequence",
        exhaustive_part="all mutation sequences up to the tier's bound over a 12-symbol alphabet",
        assumptions=["int keys/values stand for the generic K, V"],
    ),
    "C05": dict(
        level_text="Proof: every history of the slice-backed and of the linked queue model yields exactly the abstract FIFO's answers (refinement, by induction over histories); the models are tied to the code by an exhaustive small-scope + seeded correspondence run, and the Lean FIFO monitor judges the implementation's own answers.",
        level_note="Lean kernel + propext/Quot.sound/Classical.choice; models hand-written (list.DList at pointer level); tie = differential run on generated histories.",
        groups=["C05"], quick_shards=8,
        observers=("size", "peek", "search"),
        rule="all Enqueue{1,2,3}/Dequeue/Clear sequences up to length 6 (quick) / 8 (thorough) for Queue and LQueue (from its mandatory first element), observers Size/Peek/Search 0..3 after every mutation, plus seeded drain/refill runs; a case is non-trivial when the queue held >= 2 elements, was emptied, and was refilled; distinct = distinct op sequence (hash)",
        exhaustive_part="every mutation sequence up to the tier's length bound over a 5-symbol alphabet, both implementations",
        trusted=["pointer-level model of list.DList (address-indexed store) for LQueue"],
        assumptions=["element type int stands for every comparable T (the code is generic and never inspects T beyond ==)"],
    ),
    "C06": dict(
        level_text="Proof: the slice-backed stack model refines the abstract LIFO for every history; the linked stack is proved to deviate exactly as recorded in the known findings (returned value / bottom element) and to behave as a stack otherwise (partial). Models tied to the code by exhaustive small-scope + seeded correspondence; Lean LIFO monitor on the implementation's answers.",
        level_note="Lean kernel + standard axioms; LStack part is partial (known findings F12a/F12b pinned by Example_linkedList).",
        groups=["C06"], quick_shards=8,
        observers=("size", "peek", "search"),
        rule="all Push{1,2,3}/Pop sequences up to length 7 (quick) / 9 (thorough) for Stack and LStack, observers Size/Peek/Search 0..3 after every mutation, plus seeded empty/refill runs; non-trivial = held >= 2 elements, was emptied, refilled; distinct = distinct op sequence (hash)",
        exhaustive_part="every mutation sequence up to the tier's length bound over a 4-symbol alphabet, both implementations",
        trusted=["pointer-level model of list.DList (address-indexed store) for LStack"],
        assumptions=["element type int stands for every comparable T"],
    ),
    "C18": dict(
        level_text="Proof: state-machine models of After/Before/Once over the caller-owned counter and the C08 cache model, and of Retry/RetryWithDelay over a script of callback outcomes; theorems for all n, all call counts, all scripts and all instants (After runs on call k iff k > max n 0; Before on exactly the first max n 0 calls, later calls return the last run's result; Once runs once per cache-entry life and returns the first result; Retry makes min(n, first success + 1) calls, none for n <= 0, reports failures and last error; RetryWithDelay spacing). Tie: exhaustive small n x calls x scripts on the real code under testing/synctest; Lean monitor on the implementation's answers.",
        level_note="Lean kernel + standard axioms; counter type modelled as unbounded Int (no-wrap side condition stated); Before/Once hypotheses: cache entry 'func' absent at start.",
        groups=["C18"], quick_shards=8,
        observers=(),
        rule="After/Before: every n in -2..8 x 0..12 calls; Once: all call/sleep scripts up to length 6 (quick) / 8 (thorough) with and without expiry (virtual clock); Retry: every n in -2..8 x every outcome script up to length 6/8, RetryWithDelay with delays 3..7 ms and virtual timestamps; non-trivial = calls past the threshold n >= 1 / a second Once call / >= 2 Retry attempts; distinct = distinct op sequence",
        exhaustive_part="all n x call counts; all outcome scripts up to the bound; all Once call/sleep scripts up to the bound",
        trusted=["testing/synctest virtual clock"],
        assumptions=["no wrap-around of the caller-owned counter", "the cache passed to Before/Once starts without an entry \"func\""],
    ),
    "C19": dict(
        level_text="Proof: pointer-level store models of list.SList and list.DList (address 0 = embedded head, struct copies allocate) are related to the abstract sequence by an explicit representation predicate; each modelled operation preserves it and realises its sequence meaning, walks terminate, no operation panics. Tie: exhaustive small-scope + seeded correspondence on the Each sequence, First/Last/Find, errors and (verif hook) the raw prev structure; Lean relational sequence monitor on the implementation's answers.",
        level_note="Lean kernel + standard axioms; partial: see DESIGN.md (which operations have the full Repr proof); Go pointer semantics modelled by an address-indexed store.",
        groups=["C19"], quick_shards=16,
        observers=("find", "each", "first", "last", "dump"),
        rule="all sequences of <= 4 (quick) / 5 (thorough) position-parameterised edits {Unshift, Append, Shift, Pop, InsertAfter@i, InsertBefore@i, Delete@i, Replace@i, absent-value probes} with distinct inserted values, handles from Find immediately before use, Find/Each/First/Last after every edit, both list types; seeded random edit sequences up to length 80; non-trivial = at least one head-replacing edit and one interior edit; distinct = distinct op sequence",
        exhaustive_part="all edit sequences up to the tier's bound (positions 0..3/4)",
        assumptions=["int values stand for the generic comparable T", "inserted values are distinct and handles are fetched immediately before use (as the property states)"],
    ),
}

HOOK_COMMITS = ["6c7166d"]

# properties not (yet) claimed; kept current as checks are added
NOT_APPLICABLE = []
