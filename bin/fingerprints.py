"""Fingerprints of the anchored Go source files (comments and white space removed).

A changed fingerprint is NOT a verdict: it only tells bin/check that the code a property is anchored in
is no longer the text the hand-written model was written against, and switches that property's quick
tier to the thorough generators (DESIGN.md §4).  `bin/fingerprints.py write` records the current ones."""
import hashlib, json, os, re, sys

VERIF = os.path.dirname(os.path.dirname(os.path.abspath(__file__)))
FILE = os.path.join(VERIF, "fingerprints.json")


def anchors(prop):
    for line in open(os.path.join(VERIF, "properties.jsonl")):
        p = json.loads(line)
        if p["id"] == prop:
            return [f for f in p["anchors"].get("files", []) if f.endswith(".go")]
    return []


def fingerprint(path):
    try:
        src = open(path, encoding="utf-8", errors="replace").read()
    except OSError:
        return "missing"
    src = re.sub(r"/\*.*?\*/", "", src, flags=re.S)
    src = re.sub(r"//[^\n]*", "", src)
    src = re.sub(r"\s+", "", src)
    return hashlib.sha1(src.encode()).hexdigest()[:16]


def _strip(src):
    src = re.sub(r"/\*.*?\*/", "", src, flags=re.S)
    return re.sub(r"//[^\n]*", "", src)


def constants(path):
    """integer constants (>= 8) that occur in a Go file: literals and `a << b` shifts of literals"""
    try:
        src = _strip(open(path, encoding="utf-8", errors="replace").read())
    except OSError:
        return []
    src = re.sub(r'"(?:\\.|[^"\\])*"|`[^`]*`', '""', src)          # string literals out
    vals = set()
    for a, b in re.findall(r"\b(\d+)\s*<<\s*(\d+)\b", src):
        if int(b) < 40:
            vals.add(int(a) << int(b))
    for m in re.findall(r"\b(0[xX][0-9a-fA-F]+|\d+)\b", src):
        vals.add(int(m, 0))
    # narrow integer types: the number of values they hold is a threshold too (a counter of that type wraps there)
    for t, n in (("int8", 128), ("uint8", 256), ("int16", 32768), ("uint16", 65536)):
        if re.search(r"\b%s\b" % t, src):
            vals.add(n)
    return sorted(v for v in vals if 8 <= v <= 1 << 22)


def new_constants(prop, repo):
    """integer constants that appear in the property's packages now but not in the recorded source: thresholds a
    change introduced -- they steer the sizes of the bulk generators (never a verdict)"""
    try:
        want = json.load(open(FILE)).get("#constants", {})
    except OSError:
        return []
    dirs = {os.path.dirname(f) for f in anchors(prop)}
    out = set()
    for f in source_files(repo):
        if os.path.dirname(f) in dirs:
            out |= set(constants(os.path.join(repo, f))) - set(want.get(f, []))
    # a small new constant may bound a depth or a bit width: its powers of two are sizes worth straddling
    for c in sorted(out):
        if 10 <= c <= 18:
            out |= {1 << c, 1 << (c + 1)}
    return sorted(out)


def source_files(repo):
    """all non-test Go files of the repository (hooks under the verif build tag excluded)"""
    out = []
    for root, dirs, files in os.walk(repo):
        dirs[:] = [d for d in dirs if not d.startswith(".")]
        for f in files:
            if f.endswith(".go") and not f.endswith("_test.go") and not f.startswith("verif_hooks"):
                out.append(os.path.relpath(os.path.join(root, f), repo))
    return sorted(out)


def changed(prop, repo):
    """Go files in the packages the property is anchored in whose fingerprint differs from the recorded one
    (the anchored files themselves, and their package neighbours, which they call into)"""
    try:
        want = json.load(open(FILE))
    except OSError:
        return []
    dirs = {os.path.dirname(f) for f in anchors(prop)}
    cand = {f for f in (set(want) - {"#constants"}) | set(source_files(repo)) if os.path.dirname(f) in dirs}
    return sorted(f for f in cand if fingerprint(os.path.join(repo, f)) != want.get(f))


if __name__ == "__main__":
    if len(sys.argv) > 1 and sys.argv[1] == "write":
        repo = sys.argv[2] if len(sys.argv) > 2 else "/repo"
        files = source_files(repo)
        d = {f: fingerprint(os.path.join(repo, f)) for f in files}
        d["#constants"] = {f: constants(os.path.join(repo, f)) for f in files}
        json.dump(d, open(FILE, "w"), indent=1)
        print("fingerprints.json:", len(files), "files")
    else:
        for line in open(os.path.join(VERIF, "properties.jsonl")):
            p = json.loads(line)["id"]
            print(p, changed(p, "/repo"))
