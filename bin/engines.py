"""Special engines used by bin/check next to the generic correspondence pipeline."""
import os, subprocess, json, re, hashlib, time, shutil, tempfile

VERIF = os.path.dirname(os.path.dirname(os.path.abspath(__file__)))
REPO = os.environ.get("VERIF_REPO", "/repo")
LEAN = os.path.join(VERIF, "lean")
BUILD = os.path.join(VERIF, "build")
GOENV = dict(os.environ, GOFLAGS="-mod=mod", GOPROXY="off", GOSUMDB="off", GOTOOLCHAIN="local",
             GOCACHE=os.environ.get("GOCACHE", os.path.join(BUILD, "gocache")))
TRANSLATOR_PROPS = {"C19", "C09", "C07", "C18", "C04", "C03", "C01", "C02", "C16", "C10", "C08", "C11", "C12", "C13", "C14", "C15", "C05", "C06"}
# properties whose models are additionally tied to the code by the regenerated definitions of Gen/Funcs.lean:
# property -> the tie modules (Theorems/<m>.lean with Audit/<m>.lean) that speak about its model
GEN_TIE_MODULES = {"C11": ["GenTie", "GenTieMore", "GenTieMore2C"], "C12": ["GenTie", "GenTieMore", "GenTieMore2A"], "C13": ["GenTie", "GenTieMore", "GenTieMore2"], "C15": ["GenTie"], "C14": ["GenTieC14"], "C05": ["GenTieQS", "GenTieLinked"], "C06": ["GenTieQS", "GenTieLinked"], "C03": ["GenTieHeap"], "C08": ["GenTieCache"], "C04": ["GenTieBst"], "C07": ["GenTieLru"], "C09": ["GenTieTrie"], "C19": ["GenTieLists"], "C01": ["C01NoPanicGen"], "C18": ["GenTieFunc"]}
GEN_TIE_PROPS = set(GEN_TIE_MODULES)
NCPU = os.cpu_count() or 4


def sh(cmd, cwd=None, env=None, timeout=None):
    p = subprocess.run(cmd, cwd=cwd, env=env, timeout=timeout, stdout=subprocess.PIPE, stderr=subprocess.STDOUT, text=True)
    return p.returncode, p.stdout


def harness_modfile():
    """go.mod for the harness with the gogu replacement pointing at REPO (kept outside the source dir)."""
    os.makedirs(BUILD, exist_ok=True)
    mod = open(os.path.join(VERIF, "harness", "go.mod")).read()
    mod = re.sub(r"replace github.com/esimov/gogu => \S+", "replace github.com/esimov/gogu => " + REPO, mod)
    path = os.path.join(BUILD, "harness.mod")
    if not os.path.exists(path) or open(path).read() != mod:
        open(path, "w").write(mod)
    sumsrc = os.path.join(REPO, "go.sum")
    if os.path.exists(sumsrc):
        shutil.copyfile(sumsrc, os.path.join(BUILD, "harness.sum"))
    return path


def run_translator(prop, cfg):
    """Regenerate Gen/*.lean from /repo's current source. Returns an error text or ''. (Called under the lake lock.)"""
    if prop not in TRANSLATOR_PROPS:
        return ""
    src = os.path.join(VERIF, "translator")
    exe = os.path.join(BUILD, "translator")
    if os.path.exists("/repo/go.sum"):
        pass
    rc, out = sh(["go", "build", "-o", exe, "."], cwd=src, env=GOENV, timeout=600)
    if rc != 0:
        return "translator does not build:\n" + out[-2000:]
    rc, out = sh([exe, REPO, os.path.join(LEAN, "GoguVerif", "Gen"), os.path.join(BUILD, "facts.json")], env=GOENV,
                 timeout=600)
    if rc != 0:
        return "translator failed on /repo:\n" + out[-2000:]
    return ""


def write_replay(prop, kind, body):
    d = os.path.join(VERIF, "replays"); os.makedirs(d, exist_ok=True)
    h = hashlib.sha1(body.encode()).hexdigest()[:10]
    path = os.path.join(d, f"{prop}-{kind}-{h}.trace")
    open(path, "w").write(body)
    return path


# ------------------------------------------------------------------------------------------- C01

RACE_BIN = os.path.join(BUILD, "harness_race.test")


def build_race_harness():
    rc, out = sh(["go1.26.8", "test", "-c", "-race", "-tags", "verif", "-modfile", harness_modfile(), "-o", RACE_BIN, "."],
                 cwd=os.path.join(VERIF, "harness"), env=GOENV, timeout=1200)
    return rc == 0, out


STRESS_TYPES = ["heap.Heap", "bstree.BsTree", "trie.Trie", "queue.Queue", "queue.LQueue", "stack.Stack", "stack.LStack",
                "cache.Cache"]


def stress_one(args, timeout):
    env = dict(os.environ, GORACE="halt_on_error=1 exitcode=66", GOMEMLIMIT="4GiB")
    cmd = [RACE_BIN, "-test.run", "^TestHarness$", "-test.timeout", "0", "stress"] + args
    try:
        p = subprocess.run(cmd, env=env, stdout=subprocess.PIPE, stderr=subprocess.PIPE, text=True, timeout=timeout)
        return p.returncode, p.stdout, p.stderr
    except subprocess.TimeoutExpired as e:
        return -9, (e.stdout or b"").decode() if isinstance(e.stdout, bytes) else (e.stdout or ""), "timeout"


def c01_engine(prop, cfg, tier, seed):
    from concurrent.futures import ThreadPoolExecutor
    res = dict(violations=[], notes=[], evaluations=0, distinct_nontrivial=0, samples=[], detail={})
    ok, out = build_race_harness()
    if not ok:
        res["violations"].append((write_replay(prop, "unproved", "# C01: the -race stress harness does not build against /repo\n# " +
                                               out[-2000:].replace("\n", "\n# ") + "\n"), " no-failing-input-found"))
        return res
    def one(t):
        return (t,) + stress_one(["-tier", tier, "-seed", str(seed), "-only", t], 3000 if tier == "thorough" else 900)
    distinct = set()
    registered = {}
    with ThreadPoolExecutor(max_workers=len(STRESS_TYPES)) as ex:
        results = list(ex.map(one, STRESS_TYPES))
    for t, rc, so, se in results:
        scen = [l for l in so.splitlines() if l.startswith("SCEN ")]
        res["evaluations"] += len(scen)
        for l in scen:
            f = l.split()
            distinct.add((f[2], f[3], f[4]))
        for l in so.splitlines():
            if l.startswith("METHODS "):
                f = l.split()
                registered[f[1]] = f[2].split(",")
        if scen and len(res["samples"]) < 8:
            res["samples"].append(scen[len(scen) // 2])
        fails = [l for l in so.splitlines() if l.startswith("FAIL ")]
        if rc == 66 or "DATA RACE" in se:
            last = scen[-1] if scen else "(no scenario printed)"
            report = se[se.find("WARNING: DATA RACE"):][:6000]
            body = f"# property C01: data race reported by the Go race detector\n# scenario: {last}\n" + \
                   f"STRESS {last}\n# " + report.replace("\n", "\n# ") + "\n"
            res["violations"].append((write_replay(prop, "race", body), ""))
        elif fails:
            for fl in fails[:2]:
                n = fl.split()[1]
                sc = [l for l in scen if l.split()[1] == n]
                body = f"# property C01: {fl}\nSTRESS {sc[0] if sc else ''}\n"
                res["violations"].append((write_replay(prop, "stress", body), ""))
        elif rc != 0:
            last = scen[-1] if scen else "(no scenario printed)"
            body = f"# property C01: stress process for {t} died (exit {rc}) during/after scenario\nSTRESS {last}\n# " + \
                   se[-4000:].replace("\n", "\n# ") + "\n"
            res["violations"].append((write_replay(prop, "crash", body), ""))
    res["distinct_nontrivial"] = len(distinct)
    # every exported method of the table must be registered in the stress harness
    try:
        facts = json.load(open(os.path.join(BUILD, "facts.json")))
        missing = []
        for m in facts["lockTable"]:
            reg = registered.get(m["type"])
            if reg is not None and m["method"] not in reg and m.get("instance", m.get("inst", 0)) == 0:
                missing.append(m["type"] + "." + m["method"])
        if missing:
            res["notes"].append("methods in the lock table without a stress registration (decided by the table theorem only): " +
                                ", ".join(sorted(set(missing))))
        res["detail"]["lock_table_methods"] = len([m for m in facts["lockTable"] if m.get("instance", m.get("inst", 0)) == 0])
    except Exception as e:
        res["notes"].append(f"facts.json not readable: {e}")
    res["detail"]["stress_scenarios"] = res["evaluations"]
    return res


def c01_replay(path):
    ok, out = build_race_harness()
    if not ok:
        print(out); return 2
    bad = False
    for line in open(path):
        if line.startswith("STRESS SCEN"):
            f = line.split()
            t, methods, init = f[3], f[4], f[5].split("=")[1]
            rc, so, se = stress_one(["-only", t, "-methods", methods, "-init", init, "-reps", "300"], 900)
            if rc != 0:
                bad = True
                print(se[:3000]); print("\n".join(l for l in so.splitlines() if l.startswith("FAIL"))[:2000])
    if bad:
        print(f"VIOLATION property=C01 replay={path}")
    return 1 if bad else 0


# ------------------------------------------------------------------------------------------- C02

LIN_TYPES = ["queue", "lqueue", "stack", "lstack", "heap", "bst", "trie", "cache"]


def c02_engine(prop, cfg, tier, seed, only=None, crosscheck=True):
    """Exhaustive interleavings at critical-section granularity: the container packages of REPO are copied to a
    scratch tree with their `sync` import redirected to the cooperative-scheduler shim; every schedule of every small
    program is executed and each history is checked for linearizability by the Lean driver (sequential monitors as
    oracle)."""
    from concurrent.futures import ThreadPoolExecutor
    from pipeline import RunResult, pipe_run, collect, merge
    res = dict(violations=[], notes=[], evaluations=0, distinct_nontrivial=0, samples=[], detail={})
    scratch = tempfile.mkdtemp(prefix="vsync_", dir="/tmp")
    try:
        rc, out = sh([os.path.join(VERIF, "bin", "mkvsync"), REPO, scratch], env=GOENV, timeout=900)
        if rc != 0:
            res["violations"].append((write_replay(prop, "unproved", "# C02: the sync-shimmed copy of the container packages does not build\n# " +
                                                   out[-2500:].replace("\n", "\n# ") + "\n"), " no-failing-input-found"))
            return res
        prog = os.path.join(scratch, "vsyncprog")
        rr = RunResult()
        stats = {}
        observed = {}
        def one(t):
            lines, prc, err = pipe_run("vsync/" + t, [prog, "-only", t, "-tier", tier], timeout=3400)
            return t, lines, prc, err
        with ThreadPoolExecutor(max_workers=NCPU) as ex:
            for t, lines, prc, err in ex.map(one, [only] if only else LIN_TYPES):
                m = re.search(r"VSYNC programs=(\d+) executions=(\d+) histories=(\d+)", err)
                if m:
                    stats[t] = dict(programs=int(m.group(1)), executions=int(m.group(2)), histories=int(m.group(3)))
                for lm in re.finditer(r"^LOCKS (\S+) (\S+) (\S+)$", err, re.M):
                    observed.setdefault((lm.group(1), lm.group(2)), set()).add(lm.group(3))
                collect(rr, "vsync/" + t, lines, prc, "" if m else err, "vsync/" + t)
        res["runresult"] = rr
        res["detail"]["vsync"] = stats
        if crosscheck and prop in TRANSLATOR_PROPS:     # (only runs that regenerate the table; a replay does not)
            res["detail"]["lock_table_crosscheck"] = crosscheck_lock_table(observed, res, prop)
        res["detail"]["interleavings_executed"] = sum(v["executions"] for v in stats.values())
    finally:
        shutil.rmtree(scratch, ignore_errors=True)
    return res


def _modes(pattern):
    """lock-event pattern of one call -> sequence of section modes ('w' for L..U, 'r' for l..u); None if not well nested"""
    out, held = [], None
    for ch in ("" if pattern == "-" else pattern):
        if ch in "Ll":
            if held:
                return None
            held = "w" if ch == "L" else "r"
        else:
            if held != ("w" if ch == "U" else "r"):
                return None
            out.append(held); held = None
    return None if held else out


def crosscheck_lock_table(observed, res, prop):
    """Dynamic validation of the translator: the lock acquisitions every executed call really performed (recorded by
    the sync shim) must be one of the section sequences the translator extracted for that method from the source."""
    try:
        facts = json.load(open(os.path.join(BUILD, "facts.json")))
    except OSError:
        return dict(status="no facts.json")
    table = {}
    for m in facts["lockTable"]:
        if m.get("instance", m.get("inst", 0)) == 0:
            table[(m["type"], m["method"])] = {tuple(s["mode"] for s in (p["sects"] or []) if s["mode"]) for p in (m["paths"] or [])}
    checked, bad = 0, []
    for key, pats in sorted(observed.items()):
        if key not in table:
            bad.append(f"{key[0]}.{key[1]}: executed but missing from the extracted table")
            continue
        for pat in sorted(pats):
            checked += 1
            modes = _modes(pat)
            if modes is None or tuple(modes) not in table[key]:
                bad.append(f"{key[0]}.{key[1]}: observed lock events {pat} = sections {modes}, extracted paths {sorted(table[key])}")
    if bad:
        body = "# property %s: the section table extracted by the translator disagrees with the lock events observed on the\n" \
               "# real code (sync shim); the table obligations (table_ok / lin_table_ok) no longer speak about this code\n# " % prop + \
               "\n# ".join(bad[:20]) + "\n"
        res["violations"].append((write_replay(prop, "unproved", body), " no-failing-input-found"))
    return dict(status="disagreement" if bad else "ok", method_patterns_checked=checked, disagreements=bad[:10])


def c02_replay(path, prop="C02"):
    txt = open(path).read()
    m = re.search(r"^CASE lin (\S+)", txt, re.M)
    only = m.group(1) if m else None
    r = c02_engine(prop, {}, "quick", 1, only=only, crosscheck=False)
    rr = r.get("runresult")
    bad = bool(r["violations"]) or (rr is not None and bool(rr.spec))
    if rr is not None:
        for s in rr.spec[:5]:
            print(s["text"])
            for l in rr.traces.get((s["shard"], s["case"]), []):
                print("   ", l)
    if bad:
        print(f"VIOLATION property={prop} replay={path}")
    return 1 if bad else 0


# Properties that are stated about the sequential behaviour of cache/cache.go but are relied upon while the
# background cleanup goroutine (DeleteExpired) runs concurrently with the callers: the interleavings of the cache
# operations are explored for them too (same engine as C02, cache programs only).
CACHE_LIN_PROPS = {"C08", "C18"}


# --------------------------------------------------------------------------------------- dispatch

def run_engines(prop, cfg, tier, seed):
    if prop == "C01":
        return c01_engine(prop, cfg, tier, seed)
    if prop == "C02":
        return c02_engine(prop, cfg, tier, seed)
    if prop in CACHE_LIN_PROPS:
        return c02_engine(prop, cfg, tier, seed, only="cache")
    return None


def replay(prop, cfg, path):
    if prop == "C01":
        return c01_replay(path)
    if prop == "C02" or "\nCASE lin " in "\n" + open(path).read():
        return c02_replay(path, prop)
    return 0
