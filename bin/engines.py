"""Special engines used by bin/check next to the generic correspondence pipeline."""


def run_translator(prop, cfg):
    """Regenerate Gen/*.lean for properties that use translator output. Returns an error text or ''."""
    return ""


def run_engines(prop, cfg, tier, seed):
    return None


def replay(prop, cfg, path):
    return 0
